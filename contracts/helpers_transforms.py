"""Contracts for the structural seasoning transforms of yatiml.Node (C15)."""
from pyvc.contract_api import *    # noqa


@contract("yatiml/helpers.py::Node.unders_to_dashes_in_keys")
def _(self):
    properties('C15')
    requires(self.yaml_node.kind == MAP)
    requires(scalar_keys(self.yaml_node.pairs, len(self.yaml_node.pairs)))
    modifies(self.yaml_node)
    ensures(same_header(self.yaml_node, old(self.yaml_node)))
    ensures(len(self.yaml_node.pairs) == len(old(self.yaml_node).pairs))
    ensures(keys_ud(old(self.yaml_node).pairs, self.yaml_node.pairs,
                    len(self.yaml_node.pairs)))
    invariant(0, lambda _i: same_header(self.yaml_node, old(self.yaml_node))
              and len(self.yaml_node.pairs) == len(old(self.yaml_node).pairs)
              and _i <= len(self.yaml_node.pairs)
              and self.yaml_node.pairs[_i:] == old(self.yaml_node).pairs[_i:]
              and keys_ud(old(self.yaml_node).pairs, self.yaml_node.pairs,
                          _i)
              and scalar_keys(old(self.yaml_node).pairs, _i))


@contract("yatiml/helpers.py::Node.dashes_to_unders_in_keys")
def _(self):
    properties('C15')
    requires(self.yaml_node.kind == MAP)
    requires(scalar_keys(self.yaml_node.pairs, len(self.yaml_node.pairs)))
    modifies(self.yaml_node)
    ensures(same_header(self.yaml_node, old(self.yaml_node)))
    ensures(len(self.yaml_node.pairs) == len(old(self.yaml_node).pairs))
    ensures(keys_du(old(self.yaml_node).pairs, self.yaml_node.pairs,
                    len(self.yaml_node.pairs)))
    invariant(0, lambda _i: same_header(self.yaml_node, old(self.yaml_node))
              and len(self.yaml_node.pairs) == len(old(self.yaml_node).pairs)
              and _i <= len(self.yaml_node.pairs)
              and self.yaml_node.pairs[_i:] == old(self.yaml_node).pairs[_i:]
              and keys_du(old(self.yaml_node).pairs, self.yaml_node.pairs,
                          _i)
              and scalar_keys(old(self.yaml_node).pairs, _i))
