"""Contracts for the structural seasoning transforms of yatiml.Node (C15)."""
from pyvc.contract_api import *    # noqa


@contract("yatiml/helpers.py::Node.unders_to_dashes_in_keys")
def _(self):
    properties('C15')
    requires(self.yaml_node.kind == MAP)
    requires(scalar_keys(self.yaml_node.pairs, len(self.yaml_node.pairs)))
    modifies(self.yaml_node)
    ensures(same_header(self.yaml_node, old(self.yaml_node)))
    ensures(len(self.yaml_node.pairs) == len(old(self.yaml_node).pairs))
    ensures(keys_ud(old(self.yaml_node).pairs, self.yaml_node.pairs,
                    len(self.yaml_node.pairs)))
    invariant(0, lambda _i: same_header(self.yaml_node, old(self.yaml_node))
              and len(self.yaml_node.pairs) == len(old(self.yaml_node).pairs)
              and _i <= len(self.yaml_node.pairs)
              and self.yaml_node.pairs[_i:] == old(self.yaml_node).pairs[_i:]
              and keys_ud(old(self.yaml_node).pairs, self.yaml_node.pairs,
                          _i)
              and scalar_keys(old(self.yaml_node).pairs, _i))


@contract("yatiml/helpers.py::Node.dashes_to_unders_in_keys")
def _(self):
    properties('C15')
    requires(self.yaml_node.kind == MAP)
    requires(scalar_keys(self.yaml_node.pairs, len(self.yaml_node.pairs)))
    modifies(self.yaml_node)
    ensures(same_header(self.yaml_node, old(self.yaml_node)))
    ensures(len(self.yaml_node.pairs) == len(old(self.yaml_node).pairs))
    ensures(keys_du(old(self.yaml_node).pairs, self.yaml_node.pairs,
                    len(self.yaml_node.pairs)))
    invariant(0, lambda _i: same_header(self.yaml_node, old(self.yaml_node))
              and len(self.yaml_node.pairs) == len(old(self.yaml_node).pairs)
              and _i <= len(self.yaml_node.pairs)
              and self.yaml_node.pairs[_i:] == old(self.yaml_node).pairs[_i:]
              and keys_du(old(self.yaml_node).pairs, self.yaml_node.pairs,
                          _i)
              and scalar_keys(old(self.yaml_node).pairs, _i))


@contract("yatiml/helpers.py::Node.map_attribute_to_index")
def _(self, attribute, key_attribute, value_attribute):
    properties('C15')
    sort('value_attribute', 'PV')
    sort('new_value', 'Seq[YPair]')
    requires(self.yaml_node.kind == MAP)
    requires(pv_is_none(value_attribute) or pv_is_str(value_attribute))
    modifies(self.yaml_node)
    # an attribute given twice is reported (Node.get_attribute)
    raises(SeasoningError, when=cnt(self.yaml_node.pairs, attribute,
                                    len(self.yaml_node.pairs)) > 1)
    # attribute missing or not a mapping: nothing happens at all
    ensures(implies(
        not has(old(self.yaml_node), attribute)
        or first_value(old(self.yaml_node), attribute).kind != MAP,
        self.yaml_node == old(self.yaml_node)))
    # otherwise only that attribute's value changes: same keys in the same
    # order, each value turned into a mapping that also holds the key
    ensures(implies(
        has(old(self.yaml_node), attribute)
        and first_value(old(self.yaml_node), attribute).kind == MAP,
        same_header(self.yaml_node, old(self.yaml_node))
        and self.yaml_node.pairs == seq_update(
            old(self.yaml_node).pairs, at(old(self.yaml_node), attribute),
            P(old(self.yaml_node).pairs[at(old(self.yaml_node), attribute)].k,
              with_pairs(
                  first_value(old(self.yaml_node), attribute),
                  m2i_pairs(first_value(old(self.yaml_node), attribute).pairs,
                            key_attribute, value_attribute,
                            len(first_value(old(self.yaml_node),
                                            attribute).pairs)))))))
    invariant(0, lambda _i: same_header(self.yaml_node, old(self.yaml_node))
              and has(old(self.yaml_node), attribute)
              and first_value(old(self.yaml_node), attribute).kind == MAP
              and _i <= len(first_value(old(self.yaml_node), attribute).pairs)
              and self.yaml_node.pairs == seq_update(
                  old(self.yaml_node).pairs,
                  at(old(self.yaml_node), attribute),
                  P(old(self.yaml_node).pairs[
                      at(old(self.yaml_node), attribute)].k,
                    with_pairs(
                        first_value(old(self.yaml_node), attribute),
                        m2i_mid(first_value(old(self.yaml_node),
                                            attribute).pairs,
                                key_attribute, _i)
                        + first_value(old(self.yaml_node),
                                      attribute).pairs[_i:])))
              and new_value == m2i_pairs(
                  first_value(old(self.yaml_node), attribute).pairs,
                  key_attribute, value_attribute, _i))


@contract("yatiml/helpers.py::Node.index_attribute_to_map")
def _(self, attribute, key_attribute, value_attribute):
    properties('C15')
    sort('value_attribute', 'PV')
    sort('new_value', 'Seq[YPair]')
    requires(self.yaml_node.kind == MAP)
    requires(pv_is_none(value_attribute) or pv_is_str(value_attribute))
    modifies(self.yaml_node)
    raises(SeasoningError, when=cnt(self.yaml_node.pairs, attribute,
                                    len(self.yaml_node.pairs)) > 1)
    # not applicable (missing, not a mapping, some value not a mapping):
    # nothing happens at all
    ensures(implies(
        not has(old(self.yaml_node), attribute)
        or first_value(old(self.yaml_node), attribute).kind != MAP
        or not all_maps(first_value(old(self.yaml_node), attribute).pairs,
                        len(first_value(old(self.yaml_node),
                                        attribute).pairs)),
        self.yaml_node == old(self.yaml_node)))
    ensures(implies(
        has(old(self.yaml_node), attribute)
        and first_value(old(self.yaml_node), attribute).kind == MAP
        and all_maps(first_value(old(self.yaml_node), attribute).pairs,
                     len(first_value(old(self.yaml_node), attribute).pairs)),
        same_header(self.yaml_node, old(self.yaml_node))
        and self.yaml_node.pairs == seq_update(
            old(self.yaml_node).pairs, at(old(self.yaml_node), attribute),
            P(old(self.yaml_node).pairs[at(old(self.yaml_node), attribute)].k,
              with_pairs(
                  first_value(old(self.yaml_node), attribute),
                  i2m_pairs(first_value(old(self.yaml_node), attribute).pairs,
                            key_attribute, value_attribute,
                            len(first_value(old(self.yaml_node),
                                            attribute).pairs)))))))
    invariant(0, lambda _i: self.yaml_node == old(self.yaml_node)
              and _i <= len(first_value(old(self.yaml_node), attribute).pairs)
              and all_maps(first_value(old(self.yaml_node), attribute).pairs,
                           _i))
    invariant(1, lambda _i: same_header(self.yaml_node, old(self.yaml_node))
              and has(old(self.yaml_node), attribute)
              and first_value(old(self.yaml_node), attribute).kind == MAP
              and all_maps(first_value(old(self.yaml_node), attribute).pairs,
                           len(first_value(old(self.yaml_node),
                                           attribute).pairs))
              and _i <= len(first_value(old(self.yaml_node), attribute).pairs)
              and all_maps(first_value(old(self.yaml_node), attribute).pairs,
                           _i)
              and self.yaml_node.pairs == seq_update(
                  old(self.yaml_node).pairs,
                  at(old(self.yaml_node), attribute),
                  P(old(self.yaml_node).pairs[
                      at(old(self.yaml_node), attribute)].k,
                    with_pairs(
                        first_value(old(self.yaml_node), attribute),
                        i2m_mid(first_value(old(self.yaml_node),
                                            attribute).pairs,
                                key_attribute, _i)
                        + first_value(old(self.yaml_node),
                                      attribute).pairs[_i:])))
              and new_value == i2m_pairs(
                  first_value(old(self.yaml_node), attribute).pairs,
                  key_attribute, value_attribute, _i))
    invariant(2, lambda _i, _acc: _i <= len(value_node.pairs)
              and _acc == without_key(value_node.pairs, key_attribute, _i))


@contract("yatiml/helpers.py::Node.seq_attribute_to_map")
def _(self, attribute, key_attribute, value_attribute, strict):
    properties('C15')
    sort('value_attribute', 'PV')
    sort('strict', 'bool')
    sort('mapping_values', 'Seq[YPair]')
    sort('seen_keys', 'Set[str]')
    requires(self.yaml_node.kind == MAP)
    requires(pv_is_none(value_attribute) or pv_is_str(value_attribute))
    modifies(self.yaml_node)
    # errors: the attribute given twice (Node.get_attribute), an item whose
    # key attribute is missing, given twice or not a string, and - in strict
    # mode only - two items with the same key
    raises(SeasoningError, when=cnt(self.yaml_node.pairs, attribute,
                                    len(self.yaml_node.pairs)) > 1
           or (has(self.yaml_node, attribute)
               and first_value(self.yaml_node, attribute).kind == SEQ
               and (not s2m_valid(
                   first_value(self.yaml_node, attribute).items,
                   key_attribute,
                   len(first_value(self.yaml_node, attribute).items))
                   or (strict and not s2m_distinct(
                       first_value(self.yaml_node, attribute).items,
                       key_attribute,
                       len(first_value(self.yaml_node, attribute).items))))))
    # not applicable (missing, not a sequence, an item that is not a mapping
    # with one string key attribute, keys not unique): nothing happens at all
    ensures(implies(
        not has(old(self.yaml_node), attribute)
        or first_value(old(self.yaml_node), attribute).kind != SEQ
        or not s2m_valid(first_value(old(self.yaml_node), attribute).items,
                         key_attribute,
                         len(first_value(old(self.yaml_node),
                                         attribute).items))
        or not s2m_distinct(first_value(old(self.yaml_node), attribute).items,
                            key_attribute,
                            len(first_value(old(self.yaml_node),
                                            attribute).items)),
        self.yaml_node == old(self.yaml_node)))
    # otherwise only that attribute's value changes: it becomes a plain
    # mapping at the sequence's position, one entry per item in item order,
    # keyed by the item's key node, the value being the item without its key
    # attribute (or, short form, the sole remaining value attribute's value)
    ensures(implies(
        has(old(self.yaml_node), attribute)
        and first_value(old(self.yaml_node), attribute).kind == SEQ
        and s2m_valid(first_value(old(self.yaml_node), attribute).items,
                      key_attribute,
                      len(first_value(old(self.yaml_node), attribute).items))
        and s2m_distinct(first_value(old(self.yaml_node), attribute).items,
                         key_attribute,
                         len(first_value(old(self.yaml_node),
                                         attribute).items)),
        same_header(self.yaml_node, old(self.yaml_node))
        and self.yaml_node.pairs == upd_value(
            old(self.yaml_node).pairs, at(old(self.yaml_node), attribute),
            N(MAP, MAP_TAG, '', empty_nodes(),
              s2m_pairs(first_value(old(self.yaml_node), attribute).items,
                        key_attribute, value_attribute,
                        len(first_value(old(self.yaml_node),
                                        attribute).items)),
              first_value(old(self.yaml_node), attribute).smark,
              first_value(old(self.yaml_node), attribute).emark))))
    invariant(0, lambda _i: self.yaml_node == old(self.yaml_node)
              and _i <= len(first_value(old(self.yaml_node), attribute).items)
              and s2m_valid(first_value(old(self.yaml_node), attribute).items,
                            key_attribute, _i)
              and s2m_distinct(
                  first_value(old(self.yaml_node), attribute).items,
                  key_attribute, _i)
              and seen_keys == s2m_seen(
                  first_value(old(self.yaml_node), attribute).items,
                  key_attribute, _i))
    invariant(1, lambda _i: same_header(self.yaml_node, old(self.yaml_node))
              and has(old(self.yaml_node), attribute)
              and first_value(old(self.yaml_node), attribute).kind == SEQ
              and s2m_valid(first_value(old(self.yaml_node), attribute).items,
                            key_attribute,
                            len(first_value(old(self.yaml_node),
                                            attribute).items))
              and s2m_distinct(
                  first_value(old(self.yaml_node), attribute).items,
                  key_attribute,
                  len(first_value(old(self.yaml_node), attribute).items))
              and _i <= len(first_value(old(self.yaml_node), attribute).items)
              and self.yaml_node.pairs == upd_value(
                  old(self.yaml_node).pairs,
                  at(old(self.yaml_node), attribute),
                  with_items(
                      first_value(old(self.yaml_node), attribute),
                      s2m_mid(first_value(old(self.yaml_node),
                                          attribute).items,
                              key_attribute, _i)
                      + first_value(old(self.yaml_node),
                                    attribute).items[_i:]))
              and mapping_values == s2m_pairs(
                  first_value(old(self.yaml_node), attribute).items,
                  key_attribute, value_attribute, _i))
