"""Contracts for yatiml/helpers.py::UnknownNode (C16): each require_* returns
normally exactly when the documented condition holds, raises RecognitionError
otherwise, and never modifies the node (no modifies clause: the frame is an
obligation)."""
from pyvc.contract_api import *    # noqa

fields("yatiml/helpers.py::UnknownNode",
       __recognizer="obj:yatiml/recognizer.py::Recognizer", yaml_node="node")


@contract("yatiml/helpers.py::UnknownNode.require_mapping")
def _(self):
    properties('C16')
    raises(RecognitionError, when=self.yaml_node.kind != MAP)
    ensures(self.yaml_node.kind == MAP)
    must_fail(self.yaml_node.kind == SEQ)


@contract("yatiml/helpers.py::UnknownNode.require_sequence")
def _(self):
    properties('C16')
    raises(RecognitionError, when=self.yaml_node.kind != SEQ)
    ensures(self.yaml_node.kind == SEQ)


@contract("yatiml/helpers.py::UnknownNode.require_scalar")
def _(self):
    properties('C16')
    sort('args', 'Seq[Ty]')
    requires(all_scalar_from(args, 0))
    raises(RecognitionError, when=not (self.yaml_node.kind == SCALAR and (
        len(args) == 0 or tag_among(self.yaml_node.tag, args, len(args)))))
    ensures(self.yaml_node.kind == SCALAR and (
        len(args) == 0 or tag_among(self.yaml_node.tag, args, len(args))))
    invariant(0, lambda _i: _i <= len(args) and all_scalar_from(args, _i)
              and implies(self.yaml_node.kind == SCALAR,
                          not tag_among(self.yaml_node.tag, args, _i)))


@contract("yatiml/helpers.py::UnknownNode.require_attribute")
def _(self, attribute, typ):
    properties('C16')
    sort('typ', 'Ty')
    requires(typ == T_ANYSENT or wf_ty(typ))
    # present and, if a type is given, recognisable as that type by the rules
    # the loader itself uses (the contract of Recognizer.recognize)
    raises(RecognitionError, when=not (
        self.yaml_node.kind == MAP and has(self.yaml_node, attribute)
        and (typ == T_ANYSENT or not card0(rec(
            first_value(self.yaml_node, attribute), typ)))))
    ensures(self.yaml_node.kind == MAP and has(self.yaml_node, attribute)
            and (typ == T_ANYSENT or not card0(rec(
                first_value(self.yaml_node, attribute), typ))))
    invariant(0, lambda _i, _acc, _idx: _i <= len(self.yaml_node.pairs)
              and len(_idx) == cnt(self.yaml_node.pairs, attribute, _i)
              and implies(len(_idx) > 0, _idx[0] == idx_of(
                  self.yaml_node.pairs, attribute, _i)))


@contract("yatiml/helpers.py::UnknownNode.require_attribute_value")
def _(self, attribute, value):
    properties('C16')
    sort('value', 'PV')
    requires(not pv_is_node(value) and not pv_is_other(value))
    requires(scalar_values_ok(self.yaml_node.pairs,
                              len(self.yaml_node.pairs)))
    # present (under a str key) and: a scalar of the value's type that is
    # equal -- demanded of every pair under that key, i.e. of THE pair when
    # keys are distinct
    raises(RecognitionError, when=not (
        self.yaml_node.kind == MAP
        and strkey_count(self.yaml_node.pairs, attribute,
                         len(self.yaml_node.pairs)) >= 1
        and all_value_is(self.yaml_node.pairs, attribute, value,
                         len(self.yaml_node.pairs))))
    ensures(self.yaml_node.kind == MAP
            and strkey_count(self.yaml_node.pairs, attribute,
                             len(self.yaml_node.pairs)) >= 1
            and all_value_is(self.yaml_node.pairs, attribute, value,
                             len(self.yaml_node.pairs)))
    invariant(0, lambda _i: _i <= len(self.yaml_node.pairs)
              and found == (strkey_count(self.yaml_node.pairs, attribute,
                                         _i) >= 1)
              and all_value_is(self.yaml_node.pairs, attribute, value, _i))


@contract("yatiml/helpers.py::UnknownNode.require_attribute_value_not")
def _(self, attribute, value):
    properties('C16')
    sort('value', 'PV')
    requires(not pv_is_node(value) and not pv_is_other(value))
    requires(scalar_values_ok(self.yaml_node.pairs,
                              len(self.yaml_node.pairs)))
    # present and not equal: scanning the pairs under that str key in order,
    # a value of another type is accepted at once, an equal value rejected
    # (with distinct keys: present and not "scalar of the value's type that
    # is equal")
    raises(RecognitionError, when=not (
        self.yaml_node.kind == MAP and (
            vn_state(self.yaml_node.pairs, attribute, value,
                     len(self.yaml_node.pairs)) == 1
            or (vn_state(self.yaml_node.pairs, attribute, value,
                         len(self.yaml_node.pairs)) == 0
                and strkey_count(self.yaml_node.pairs, attribute,
                                 len(self.yaml_node.pairs)) >= 1))))
    ensures(self.yaml_node.kind == MAP and (
        vn_state(self.yaml_node.pairs, attribute, value,
                 len(self.yaml_node.pairs)) == 1
        or (vn_state(self.yaml_node.pairs, attribute, value,
                     len(self.yaml_node.pairs)) == 0
            and strkey_count(self.yaml_node.pairs, attribute,
                             len(self.yaml_node.pairs)) >= 1)))
    invariant(0, lambda _i: _i <= len(self.yaml_node.pairs)
              and found == (strkey_count(self.yaml_node.pairs, attribute,
                                         _i) >= 1)
              and vn_state(self.yaml_node.pairs, attribute, value, _i) == 0)
