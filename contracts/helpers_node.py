"""Contracts for yatiml/helpers.py::Node  (C14, used by C15, C16, C01...).

Written from the property statement: a mapping node is an ordered dictionary;
existing keys keep their position, new keys append, absent keys are reported
or ignored as documented.  The postconditions speak about the WHOLE pair list
(so "the other keys are untouched" is proved, not assumed)."""
from pyvc.contract_api import *    # noqa

fields("yatiml/helpers.py::Node", yaml_node="node")


@contract("yatiml/helpers.py::Node.__attr_index")
def _(self, attribute):
    properties('C14')
    requires(self.yaml_node.kind == MAP)
    result_sort('Opt[int]')
    ensures(implies(result is None, not has(self.yaml_node, attribute)))
    ensures(implies(result is not None,
                    result == at(self.yaml_node, attribute) and result != -1))
    invariant(0, lambda _i: attr_index is None and _i <= len(self.yaml_node.pairs)
              and idx_of(self.yaml_node.pairs, attribute, _i) == -1)


@contract("yatiml/helpers.py::Node.has_attribute")
def _(self, attribute):
    properties('C14')
    requires(self.yaml_node.kind == MAP)
    ensures(result == has(self.yaml_node, attribute))
    invariant(0, lambda _i, _acc: _i <= len(self.yaml_node.pairs) and
              _acc == (idx_of(self.yaml_node.pairs, attribute, _i) != -1))


@contract("yatiml/helpers.py::Node.is_mapping")
def _(self):
    properties('C14')
    ensures(result == (self.yaml_node.kind == MAP))


@contract("yatiml/helpers.py::Node.is_sequence")
def _(self):
    properties('C14')
    ensures(result == (self.yaml_node.kind == SEQ))


@contract("yatiml/helpers.py::Node.get_attribute")
def _(self, attribute):
    properties('C14')
    requires(self.yaml_node.kind == MAP)
    raises(SeasoningError, when=cnt(self.yaml_node.pairs, attribute,
                                    len(self.yaml_node.pairs)) != 1)
    # always raised WITH a message (callers read e.args[0])
    raises_msg(SeasoningError, lambda m: len(m) > 0)
    ensures(cnt(self.yaml_node.pairs, attribute,
                len(self.yaml_node.pairs)) == 1)
    returns_place(lambda: self.yaml_node.pairs[at(self.yaml_node, attribute)].v)
    invariant(0, lambda _i, _idx: _i <= len(self.yaml_node.pairs)
              and len(_idx) == cnt(self.yaml_node.pairs, attribute, _i)
              and implies(len(_idx) > 0, _idx[0] == idx_of(
                  self.yaml_node.pairs, attribute, _i)))


@contract("yatiml/helpers.py::Node.set_attribute")
def _(self, attribute, value):
    properties('C14')
    requires(self.yaml_node.kind == MAP)
    modifies(self.yaml_node)
    raises(TypeError, when=pv_is_other(value))
    ensures(not pv_is_other(value))
    ensures(same_header(self.yaml_node, old(self.yaml_node)))
    # existing key: position kept, key node kept, only that value replaced
    ensures(implies(
        has(old(self.yaml_node), attribute),
        self.yaml_node.pairs == seq_update(
            old(self.yaml_node).pairs, at(old(self.yaml_node), attribute),
            P(old(self.yaml_node).pairs[at(old(self.yaml_node), attribute)].k,
              self.yaml_node.pairs[at(old(self.yaml_node), attribute)].v))
        and value_node_ok(
            self.yaml_node.pairs[at(old(self.yaml_node), attribute)].v,
            value)))
    # new key: appended at the end with a str key node
    ensures(implies(
        not has(old(self.yaml_node), attribute),
        self.yaml_node.pairs == old(self.yaml_node).pairs + [
            self.yaml_node.pairs[len(old(self.yaml_node).pairs)]]
        and is_scalar_node(
            self.yaml_node.pairs[len(old(self.yaml_node).pairs)].k,
            STR_TAG, attribute)
        and value_node_ok(
            self.yaml_node.pairs[len(old(self.yaml_node).pairs)].v, value)))


@contract("yatiml/helpers.py::Node.remove_attribute")
def _(self, attribute):
    properties('C14')
    requires(self.yaml_node.kind == MAP)
    modifies(self.yaml_node)
    ensures(same_header(self.yaml_node, old(self.yaml_node)))
    ensures(implies(not has(old(self.yaml_node), attribute),
                    self.yaml_node == old(self.yaml_node)))
    ensures(implies(
        has(old(self.yaml_node), attribute),
        self.yaml_node.pairs ==
        old(self.yaml_node).pairs[:at(old(self.yaml_node), attribute)]
        + old(self.yaml_node).pairs[at(old(self.yaml_node), attribute) + 1:]))


@contract("yatiml/helpers.py::Node.rename_attribute")
def _(self, attribute, new_name):
    properties('C14')
    requires(self.yaml_node.kind == MAP)
    modifies(self.yaml_node)
    ensures(implies(not has(old(self.yaml_node), attribute),
                    self.yaml_node == old(self.yaml_node)))
    ensures(implies(
        has(old(self.yaml_node), attribute),
        self.yaml_node == with_pairs(
            old(self.yaml_node),
            seq_update(
                old(self.yaml_node).pairs, at(old(self.yaml_node), attribute),
                P(with_val(old(self.yaml_node).pairs[
                    at(old(self.yaml_node), attribute)].k, new_name),
                  old(self.yaml_node).pairs[
                      at(old(self.yaml_node), attribute)].v)))))
    invariant(0, lambda _i: _i <= len(self.yaml_node.pairs)
              and self.yaml_node == old(self.yaml_node)
              and idx_of(self.yaml_node.pairs, attribute, _i) == -1)


# ---- classification (C14: is_scalar/is_mapping/is_sequence classify nodes)

@contract("yatiml/helpers.py::Node.is_scalar")
def _(self, typ):
    properties('C14')
    sort('typ', 'Ty')
    # documented argument domain: the scalar types, or absent
    raises(ValueError, when=self.yaml_node.kind == SCALAR
           and typ != T_ANYSENT and not is_scalar_type(typ))
    ensures(result == (self.yaml_node.kind == SCALAR and (
        typ == T_ANYSENT or self.yaml_node.tag == scalar_tag(typ))))
    must_fail(result == (self.yaml_node.kind == SCALAR))


@contract("yatiml/helpers.py::Node.is_empty")
def _(self):
    properties('C14')
    requires(self.yaml_node.kind == SEQ or self.yaml_node.kind == MAP)
    ensures(result == (len(self.yaml_node.items) == 0
                       if self.yaml_node.kind == SEQ
                       else len(self.yaml_node.pairs) == 0))


@contract("yatiml/helpers.py::Node.make_mapping")
def _(self):
    properties('C14')
    rebinds(self.yaml_node)
    ensures(self.yaml_node.kind == MAP and self.yaml_node.tag == MAP_TAG
            and len(self.yaml_node.pairs) == 0)


@contract("yatiml/helpers.py::Node.set_value")
def _(self, value):
    properties('C14')
    requires(not pv_is_node(value) and not pv_is_other(value))
    rebinds(self.yaml_node)
    # afterwards the node is a scalar spelled as documented, and -- for a
    # node with a core-schema tag -- of the value's own scalar type
    ensures(self.yaml_node.kind == SCALAR)
    ensures(self.yaml_node.val == scalar_text(value))
    ensures(implies(startswith(old(self.yaml_node).tag, CORE_PREFIX),
                    self.yaml_node.tag == scalar_tag(typeof(value))))
    ensures(implies(not startswith(old(self.yaml_node).tag, CORE_PREFIX),
                    self.yaml_node.tag == old(self.yaml_node).tag))
    ensures(self.yaml_node.smark == old(self.yaml_node).smark
            and self.yaml_node.emark == old(self.yaml_node).emark)


@contract("yatiml/helpers.py::Node.get_value")
def _(self):
    properties('C14')
    requires(self.yaml_node.kind == SCALAR)
    result_sort('PV')
    # "what a load would construct": PyYAML's own scalar constructors
    # (E-CONSTRUCT); outside their domain they raise like a load would
    raises(ValueError, when=(self.yaml_node.tag == INT_TAG
                             and not yaml_int_dom(self.yaml_node.val))
           or (self.yaml_node.tag == FLOAT_TAG
               and not yaml_float_dom(self.yaml_node.val)))
    raises(KeyError, when=self.yaml_node.tag == BOOL_TAG
           and not yaml_bool_dom(self.yaml_node.val))
    raises(RuntimeError, when=not has_scalar_core_tag(self.yaml_node))
    ensures(implies(self.yaml_node.tag == STR_TAG,
                    result == mk_pv_str(self.yaml_node.val)))
    ensures(implies(self.yaml_node.tag == INT_TAG,
                    yaml_int_dom(self.yaml_node.val)
                    and result == mk_pv_int(yaml_int(self.yaml_node.val))))
    ensures(implies(self.yaml_node.tag == FLOAT_TAG,
                    yaml_float_dom(self.yaml_node.val)
                    and result == mk_pv_float(
                        yaml_float(self.yaml_node.val))))
    ensures(implies(self.yaml_node.tag == BOOL_TAG,
                    yaml_bool_dom(self.yaml_node.val)
                    and result == mk_pv_bool(yaml_bool(self.yaml_node.val))))
    ensures(implies(self.yaml_node.tag == NULL_TAG, pv_is_none(result)))
    ensures(has_scalar_core_tag(self.yaml_node))


@contract("yatiml/helpers.py::Node.seq_items")
def _(self):
    properties('C14')
    requires(self.yaml_node.kind == SEQ)
    inline()
    result_sort('wrapseq')
    ensures(len(result) == len(self.yaml_node.items))


@contract("yatiml/helpers.py::Node.has_attribute_type")
def _(self, attribute, typ):
    properties('C14')
    sort('typ', 'Ty')
    requires(self.yaml_node.kind == MAP)
    raises(SeasoningError, when=cnt(self.yaml_node.pairs, attribute,
                                    len(self.yaml_node.pairs)) > 1)
    raises(ValueError, when=has(self.yaml_node, attribute)
           and not is_scalar_type(typ) and typ != T_PYLIST and typ != T_PYDICT)
    ensures(implies(not has(self.yaml_node, attribute), not result))
    ensures(implies(has(self.yaml_node, attribute) and is_scalar_type(typ),
                    result == (self.yaml_node.pairs[
                        at(self.yaml_node, attribute)].v.tag
                        == scalar_tag(typ))))
    ensures(implies(has(self.yaml_node, attribute) and typ == T_PYLIST,
                    result == (self.yaml_node.pairs[
                        at(self.yaml_node, attribute)].v.kind == SEQ)))
    ensures(implies(has(self.yaml_node, attribute) and typ == T_PYDICT,
                    result == (self.yaml_node.pairs[
                        at(self.yaml_node, attribute)].v.kind == MAP)))
