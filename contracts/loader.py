"""Contracts for yatiml/loader.py (C01, C02, C04, C08, C10)."""
from pyvc.contract_api import *    # noqa

fields("yatiml/loader.py::Loader", _registered_classes="regdict",
       _additional_classes="adddict",
       __recognizer="obj:yatiml/recognizer.py::Recognizer")


@contract("yatiml/loader.py::Loader.__type_to_tag")
def _(self, type_):
    properties('C01', 'C04', 'C08')
    requires(is_scalar_type(type_) or ty_is_list(type_) or ty_is_dict(type_)
             or reg_has(type_) or type_ == T_PATH)
    requires(wf_ty(type_))
    ensures(result == tag_of(type_))


@contract("yatiml/loader.py::Loader.__savorize")
def _(self, node, expected_type):
    properties('C10', 'C08')
    requires(reg_has(expected_type) and wf_ty(expected_type))
    traces()
    modifies(node)          # hooks may also change the node they get in place
    result_sort('node')
    raises(SeasoningError)
    # hooks defined in the bodies of the registered bases first, then the
    # class's own, each once, and no other class's
    ensures(sav_trace() == old(sav_trace()) + sav_order(expected_type))
    sort('node', 'node')
    invariant(0, lambda _i: _i <= len(cls_bases(expected_type))
              and sav_trace() == old(sav_trace()) + sav_order_b(
                  expected_type, _i))


@contract("yatiml/loader.py::Loader.__process_node")
def _(self, node, expected_type):
    properties('C01', 'C02', 'C03', 'C04', 'C08', 'C10')
    requires(wf_ty(expected_type))
    traces()
    modifies(node)
    result_sort('node')
    # everything that goes wrong is a RecognitionError (C08), and its message
    # cites a source position (C17)
    raises(RecognitionError)
    raises_msg(RecognitionError, lambda m: cites(m))
    # never a guess: exactly one recognised type, its tag on the node, plain
    # data below Any, element-wise for lists and dicts (C01-C04)
    ensures(proc_rel(old(node), expected_type, result))
    # savorize: the chain of the recognised class runs before anything else
    # happens below this node, and only for a registered class (C10)
    ensures(prefix_of(old(sav_trace()) + (
        sav_order(the(rec(old(node), expected_type)))
        if reg_has(the(rec(old(node), expected_type))) else empty_tys()),
        sav_trace()))
    # list items: processed prefix in the accumulator, unprocessed suffix
    # still in place
    invariant(0, lambda _i, _acc: node.kind == SEQ
              and len(node.items) == len(old(node).items)
              and _i <= len(node.items) and len(_acc) == _i
              and node.items[_i:] == old(node).items[_i:]
              and proc_items(old(node).items, ty_elem(the(rec(
                  old(node), expected_type))), _acc, _i)
              and prefix_of(old(sav_trace()), sav_trace()))
    invariant(1, lambda _i, _acc: node.kind == MAP
              and len(node.pairs) == len(old(node).pairs)
              and _i <= len(node.pairs) and len(_acc) == _i
              and node.pairs[_i:] == old(node).pairs[_i:]
              and proc_pairs(old(node).pairs,
                             ty_key(the(rec(old(node), expected_type))),
                             ty_dval(the(rec(old(node), expected_type))),
                             _acc, _i)
              and prefix_of(old(sav_trace()), sav_trace()))
    invariant(2, lambda _i: prefix_of(old(sav_trace()) + sav_order(
        the(rec(old(node), expected_type))), sav_trace()))


@contract("yatiml/loader.py::Loader.get_single_node")
def _(self):
    properties('C01', 'C02', 'C08')
    requires(wf_ty(document_type()))
    traces()
    result_sort('node')
    raises(RecognitionError)
    raises_msg(RecognitionError, lambda m: cites(m))
    raises(YAMLError)
    # every document -- also the empty one -- is processed for the document
    # type before it is handed to the constructors
    ensures(proc_rel(composed_document(), document_type(), result))


@contract("yatiml/loader.py::Loader.__reject_recursive_aliases")
def _(self, node, ancestors, done):
    # depth-first search for a node that contains an alias to itself; uses
    # object identity (id()), which the value model of nodes cannot express:
    # assumed contract, exercised by the bounded alias stand-in (C18)
    trusted()
    bounded()
    sort('ancestors', 'opaque')
    sort('done', 'opaque')
    raises(RecognitionError)
    raises_msg(RecognitionError, lambda m: cites(m))
