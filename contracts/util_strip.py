"""Contract for util.strip_tags (C04): afterwards the whole subtree is plain
(core-schema tags only, collections exactly seq/map), the structure and the
scalar texts are untouched."""
from pyvc.contract_api import *    # noqa


@contract("yatiml/util.py::strip_tags")
def _(resolver, node):
    properties('C04', 'C01', 'C08')
    sort('resolver', 'resolver')
    modifies(node)
    ensures(plain(node))
    ensures(node.kind == old(node).kind and node.val == old(node).val)
    ensures(len(node.items) == len(old(node).items)
            and len(node.pairs) == len(old(node).pairs))
    invariant(0, lambda _i: node.kind == SEQ and node.tag == SEQ_TAG
              and node.val == old(node).val
              and len(node.items) == len(old(node).items)
              and node.pairs == old(node).pairs
              and _i <= len(node.items) and plain_items(node.items, _i))
    invariant(1, lambda _i: node.kind == MAP and node.tag == MAP_TAG
              and node.val == old(node).val
              and len(node.pairs) == len(old(node).pairs)
              and node.items == old(node).items
              and _i <= len(node.pairs) and plain_pairs(node.pairs, _i))
    must_fail(node.tag == old(node).tag)
