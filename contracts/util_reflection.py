"""Assumed contracts of the reflection helpers (DESIGN 7.19).  They depend on
CPython's typing/inspect internals and are out of the verifier's reach; each
is checked by a BOUNDED exhaustive comparison against the abstraction abs_type
(checks/reflection.py) -- labelled bounded, never counted as proved."""
from pyvc.contract_api import *    # noqa


@contract("yatiml/util.py::is_generic_union")
def _(type_):
    trusted()
    bounded()
    sort('type_', 'Ty')
    ensures(result == ty_is_union(type_))


@contract("yatiml/util.py::is_generic_sequence")
def _(type_):
    trusted()
    bounded()
    sort('type_', 'Ty')
    ensures(result == ty_is_list(type_))


@contract("yatiml/util.py::is_generic_mapping")
def _(type_):
    trusted()
    bounded()
    sort('type_', 'Ty')
    ensures(result == ty_is_dict(type_))


@contract("yatiml/util.py::generic_type_args")
def _(type_):
    trusted()
    bounded()
    sort('type_', 'Ty')
    result_sort('Seq[Ty]')
    ensures(result == ty_args(type_))


@contract("yatiml/util.py::is_string_like")
def _(type_):
    trusted()
    bounded()
    sort('type_', 'Ty')
    requires(cls_isclass(type_))
    ensures(result == cls_is_strlike(type_))


@contract("yatiml/util.py::is_abstract")
def _(type_):
    trusted()
    bounded()
    sort('type_', 'Ty')
    ensures(result == cls_is_abstract(type_))


# ---- message helpers: pure, string-valued (their exception freedom is C08,
# what they quote is C17; both are verified in contracts/util_messages.py)

@contract("yatiml/util.py::type_to_desc")
def _(type_):
    trusted()
    sort('type_', 'Ty')
    result_sort('str')


@contract("yatiml/util.py::cjoin")
def _(conjuction, words):
    trusted()
    sort('words', 'opaque')
    result_sort('str')


@contract("yatiml/util.py::_describe_allowed_present_keys")
def _(got, all_keys, missing):
    trusted()
    sort('got', 'opaque')
    sort('all_keys', 'opaque')
    result_sort('str')


@contract("yatiml/util.py::diagnose_extraneous_key")
def _(name, got, expected_type):
    properties('C17', 'C08')
    sort('name', 'str')
    sort('got', 'Seq[str]')
    sort('expected_type', 'Ty')
    result_sort('str')
    # the message names the offending key, quoted
    ensures(contains(result, '"' + name + '"'))


@contract("yatiml/util.py::diagnose_missing_key")
def _(name, got, expected_type):
    properties('C17', 'C08')
    sort('name', 'str')
    sort('got', 'Seq[str]')
    sort('expected_type', 'Ty')
    result_sort('str')
    ensures(contains(result, '"' + name + '"'))


@contract("yatiml/irecognizer.py::format_rec_error")
def _(rec_error):
    trusted()
    sort('rec_error', 'RErr')
    result_sort('str')
    # prints the leaves of the error tree: if every leaf cites a position so
    # does the text (assumed here, argued in DESIGN; bounded stand-in)
    ensures(implies(leafcite(rec_error), cites(result)))
