"""Contracts for yatiml/representers.py (C06, C10, C05)."""
from pyvc.contract_api import *    # noqa

fields("yatiml/representers.py::Representer", class_="Ty")
fields("yatiml/representers.py::EnumRepresenter", class_="Ty")
fields("yatiml/representers.py::UserStringRepresenter", class_="Ty")
fields("yatiml/representers.py::PathRepresenter")


@contract("yatiml/representers.py::Representer.__sweeten")
def _(self, dumper, class_, node):
    properties('C10', 'C06')
    sort('dumper', 'dumper')
    sort('class_', 'Ty')
    sort('node', 'obj:yatiml/helpers.py::Node')
    traces()
    modifies(node.yaml_node)
    rebinds(node.yaml_node)
    raises(SeasoningError)
    # sweeten hooks of the registered bases first (recursively, in base
    # order), then the class's own -- each only if defined in its own body
    ensures(sav_trace() == old(sav_trace()) + swe_order(class_))
    invariant(0, lambda _i: _i <= len(cls_bases(class_))
              and sav_trace() == old(sav_trace()) + swe_order_b(class_, _i))


@contract("yatiml/representers.py::EnumRepresenter.__call__")
def _(self, dumper, data):
    properties('C06', 'C05')
    sort('dumper', 'dumper')
    sort('data', 'enumval')
    traces()
    result_sort('node')
    raises(SeasoningError)
    # an enum member is dumped as a plain str scalar holding its NAME
    ensures(implies(not vis_sweeten(self.class_),
                    result.kind == SCALAR and result.tag == STR_TAG
                    and result.val == enum_name(data)))


@contract("yatiml/representers.py::UserStringRepresenter.__call__")
def _(self, dumper, data):
    properties('C06', 'C05')
    sort('dumper', 'dumper')
    sort('data', 'strlikeval')
    traces()
    result_sort('node')
    raises(SeasoningError)
    ensures(implies(not vis_sweeten(self.class_),
                    result.kind == SCALAR and result.tag == STR_TAG
                    and result.val == pystr(data)))


@contract("yatiml/representers.py::PathRepresenter.__call__")
def _(self, dumper, path):
    properties('C06', 'C05')
    sort('dumper', 'dumper')
    sort('path', 'pathval')
    result_sort('node')
    ensures(result.kind == SCALAR and result.tag == STR_TAG
            and result.val == pystr(path))


fields("yatiml/representers.py::Representer", class_="Ty")


@contract("yatiml/representers.py::Representer.__call__")
def _(self, dumper, data):
    properties('C06', 'C10')
    sort('dumper', 'dumper')
    sort('data', 'PyV')
    traces()
    result_sort('node')
    # what may leave: the documented RuntimeErrors (SeasoningError is one),
    # a missing attribute, PyYAML's own error, whatever the user's
    # _yatiml_attributes raises
    raises(RuntimeError)
    raises(AttributeError)
    raises(YAMLError)
    raises(UserException)
    # PyYAML is handed a plain map tag and exactly the object's projection,
    # in order: parameters in declaration order, then the extras in theirs
    # (or what _yatiml_attributes returns)
    ensures(represented_tag() == MAP_TAG)
    ensures(represented_items() == projection(data))
    # then the sweeten hooks of the registered bases first and the class's own
    ensures(sav_trace() == old(sav_trace()) + swe_order(self.class_))
    invariant(0, lambda _i, _acc: _i <= len(attribute_names)
              and _acc == pattrs(data, attribute_names, _i))
