"""Contracts for yatiml/recognizer.py (C01-C04, C08, C13, C16, C17)."""
from pyvc.contract_api import *    # noqa

fields("yatiml/recognizer.py::Recognizer",
       __registered_classes="regdict", __additional_classes="adddict")


@contract("yatiml/recognizer.py::Recognizer.__recognize_scalar")
def _(self, node, expected_type):
    properties('C02', 'C01', 'C08', 'C17')
    requires(is_scalar_type(expected_type))
    result_sort('RecResult')
    ensures(cardmany(result[0])
            or forall_in(result[0], lambda r: wf_ty(r)))
    ensures(implies(not card1(result[0]), leafcite(result[1])))
    ensures(forall_in(result[0], lambda r: shape_ok(node, r)))
    # built-ins are recognised by the exact YAML tag, on scalar nodes only
    ensures(result[0] == (tyset_of(expected_type)
                          if node.kind == SCALAR
                          and node.tag == scalar_tag(expected_type)
                          else tyset_empty()))
    # a failed recognition cites the position of the node (C17)
    ensures(implies(card0(result[0]),
                    contains(err_msg(result[1]), markstr(node.smark))))
    must_fail(card0(result[0]))


@contract("yatiml/recognizer.py::Recognizer.__recognize_additional")
def _(self, node, expected_type):
    properties('C02', 'C01', 'C08', 'C17')
    requires(expected_type == T_PATH)
    result_sort('RecResult')
    ensures(cardmany(result[0])
            or forall_in(result[0], lambda r: wf_ty(r)))
    ensures(implies(not card1(result[0]), leafcite(result[1])))
    ensures(forall_in(result[0], lambda r: shape_ok(node, r)))
    ensures(result[0] == (tyset_of(T_PATH)
                          if node.kind == SCALAR and node.tag == STR_TAG
                          else tyset_empty()))
    ensures(implies(card0(result[0]),
                    contains(err_msg(result[1]), markstr(node.smark))))


@contract("yatiml/recognizer.py::Recognizer.recognize")
def _(self, node, expected_type):
    properties('C02', 'C03', 'C01', 'C08', 'C16', 'C13')
    requires(wf_ty(expected_type))
    result_sort('RecResult')
    ensures(forall_in(result[0], lambda r: concrete_ok(r)))
    ensures(cardmany(result[0])
            or forall_in(result[0], lambda r: wf_ty(r)))
    ensures(implies(not card1(result[0]), leafcite(result[1])))
    ensures(forall_in(result[0], lambda r: shape_ok(node, r)))
    ensures(result[0] == rec(node, expected_type))


@contract("yatiml/recognizer.py::Recognizer.__recognize_union")
def _(self, node, expected_type):
    properties('C02', 'C03', 'C13')
    requires(ty_is_union(expected_type) and wf_ty(expected_type))
    result_sort('RecResult')
    ensures(forall_in(result[0], lambda r: concrete_ok(r)))
    ensures(cardmany(result[0])
            or forall_in(result[0], lambda r: wf_ty(r)))
    ensures(implies(not card1(result[0]), leafcite(result[1])))
    ensures(forall_in(result[0], lambda r: shape_ok(node, r)))
    sort('causes', 'Seq[RErr]')
    sort('recognized_types', 'Set[Ty]')
    ensures(result[0] == fixbool(rec_union(
        node, ty_members(expected_type), len(ty_members(expected_type)))))
    invariant(0, lambda _i: _i <= len(ty_members(expected_type))
              and recognized_types == rec_union(
                  node, ty_members(expected_type), _i)
              and forall_in(recognized_types, lambda r: shape_ok(node, r))
              and forall_in(recognized_types, lambda r: concrete_ok(r))
              and leafcite_all(causes, len(causes))
              and (cardmany(recognized_types)
                   or forall_in(recognized_types, lambda r: wf_ty(r))))


@contract("yatiml/recognizer.py::Recognizer.__recognize_list")
def _(self, node, expected_type):
    properties('C02', 'C01', 'C13')
    requires(ty_is_list(expected_type) and wf_ty(expected_type))
    unfold(2)
    result_sort('RecResult')
    ensures(cardmany(result[0])
            or forall_in(result[0], lambda r: wf_ty(r)))
    ensures(implies(not card1(result[0]), leafcite(result[1])))
    ensures(forall_in(result[0], lambda r: shape_ok(node, r)))
    ensures(result[0] == rec_list(node, expected_type))
    invariant(0, lambda _i: _i <= len(node.items) and first_bad(
        node.items, ty_elem(expected_type), _i) == -1)


@contract("yatiml/recognizer.py::Recognizer.__recognize_dict")
def _(self, node, expected_type):
    properties('C02', 'C01', 'C13')
    requires(ty_is_dict(expected_type) and wf_ty(expected_type))
    unfold(2)
    result_sort('RecResult')
    ensures(cardmany(result[0])
            or forall_in(result[0], lambda r: wf_ty(r)))
    ensures(implies(not card1(result[0]), leafcite(result[1])))
    ensures(forall_in(result[0], lambda r: shape_ok(node, r)))
    ensures(result[0] == rec_dict(node, expected_type))
    invariant(0, lambda _i: _i <= len(node.pairs) and first_bad_pair(
        node.pairs, ty_key(expected_type), ty_dval(expected_type), _i) == -1)


@contract("yatiml/recognizer.py::Recognizer.__recognize_user_class")
def _(self, node, expected_type):
    properties('C02', 'C03', 'C10', 'C08')
    requires(reg_has(expected_type) and wf_ty(expected_type))
    requires(not is_scalar_type(expected_type))
    unfold(2)
    result_sort('RecResult')
    ensures(cardmany(result[0])
            or forall_in(result[0], lambda r: wf_ty(r)))
    ensures(implies(not card1(result[0]), leafcite(result[1])))
    # an error raised for this mapping itself (not passed up from an
    # attribute) cites the start of the mapping, whatever else it says (C17)
    ensures(implies(not card1(result[0])
                    and len(err_causes(result[1])) == 0,
                    contains(err_msg(result[1]), markstr(node.smark))),
            prop=('C17',))
    ensures(forall_in(result[0], lambda r: shape_ok(node, r)))
    ensures(result[0] == (tyset_of(expected_type)
                          if matches1(node, expected_type)
                          else tyset_empty()))
    invariant(1, lambda _i: _i <= cls_nparams(expected_type)
              and params_ok(node, expected_type, _i))
    invariant(3, lambda _i, _acc: _i <= len(node.pairs)
              and len(_acc) == cnt(node.pairs, name, _i))


@contract("yatiml/recognizer.py::Recognizer.__recognize_user_classes")
def _(self, node, expected_type, top):
    properties('C03', 'C02', 'C13')
    requires(reg_has(expected_type) and wf_ty(expected_type))
    requires(not is_scalar_type(expected_type))
    result_sort('RecResult')
    ensures(forall_in(result[0], lambda r: concrete_ok(r)))
    ensures(cardmany(result[0])
            or forall_in(result[0], lambda r: wf_ty(r)))
    ensures(implies(not card1(result[0]), leafcite(result[1])))
    ensures(forall_in(result[0], lambda r: shape_ok(node, r)))
    sort('causes', 'Seq[RErr]')
    sort('recognized_subclasses', 'Set[Ty]')
    # most-derived registered matches, disambiguated / rejected by the tag
    ensures(result[0] == rec_hier(node, expected_type))
    invariant(0, lambda _i: _i <= reg_len()
              and recognized_subclasses == sub_union(node, expected_type, _i)
              and forall_in(recognized_subclasses,
                            lambda r: shape_ok(node, r))
              and forall_in(recognized_subclasses,
                            lambda r: concrete_ok(r))
              and leafcite_all(causes, len(causes))
              and (cardmany(recognized_subclasses)
                   or forall_in(recognized_subclasses, lambda r: wf_ty(r))))
