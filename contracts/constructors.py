"""Contracts for yatiml/constructors.py (C01, C04, C08)."""
from pyvc.contract_api import *    # noqa

fields("yatiml/constructors.py::Constructor", class_="Ty",
       __loader="resolver")
fields("yatiml/constructors.py::EnumConstructor", class_="Ty")
fields("yatiml/constructors.py::UserStringConstructor", class_="Ty")
fields("yatiml/constructors.py::PathConstructor")


@contract("yatiml/constructors.py::Constructor.__strip_extra_attributes")
def _(self, node, known_attrs):
    properties('C04', 'C08')
    sort('known_attrs', 'Set[str]')
    requires(node.kind == MAP)
    requires(in_strs('self', known_attrs))        # a valid __init__ (E-ARGSPEC)
    modifies(node)
    raises(RecognitionError)
    raises_msg(RecognitionError, lambda m: cites(m))
    # all keys are plain str scalars, and everything below a key that is not
    # a constructor parameter is plain data: nothing there can be constructed
    ensures(node.kind == MAP and len(node.pairs) == len(old(node).pairs))
    ensures(extras_plain(node.pairs, strs_remove(strs_remove(
        known_attrs, 'self'), '_yatiml_extra'), len(node.pairs)))
    invariant(0, lambda _i: node.kind == MAP
              and len(node.pairs) == len(old(node).pairs)
              and _i <= len(node.pairs)
              and extras_plain(node.pairs, known_keys, _i))


@contract("yatiml/constructors.py::EnumConstructor.__call__")
def _(self, loader, node):
    properties('C08', 'C05', 'C01')
    sort('loader', 'resolver')
    # only RecognitionError; the member is looked up by NAME
    raises(RecognitionError)
    raises_msg(RecognitionError, lambda m: cites(m))
    ensures(node.kind == SCALAR and enum_has(self.class_, node.val))
    ensures(is_enum_member(yielded(), self.class_, node.val))


@contract("yatiml/constructors.py::UserStringConstructor.__call__")
def _(self, loader, node):
    properties('C08', 'C05', 'C01')
    sort('loader', 'resolver')
    # whatever the user's class raises is reported as a RecognitionError
    raises(RecognitionError)
    raises_msg(RecognitionError, lambda m: cites(m))
    ensures(node.kind == SCALAR and new_ok(self.class_, node.val))
    ensures(is_obj_of(yielded(), 'strlike', self.class_, node.val))


@contract("yatiml/constructors.py::PathConstructor.__call__")
def _(self, loader, node):
    properties('C08', 'C05', 'C01')
    sort('loader', 'resolver')
    raises(RecognitionError)
    raises_msg(RecognitionError, lambda m: cites(m))
    ensures(node.kind == SCALAR)
    ensures(is_obj_of(yielded(), 'path'))
