"""Contracts for yatiml/constructors.py (C01, C04, C08)."""
from pyvc.contract_api import *    # noqa

fields("yatiml/constructors.py::Constructor", class_="Ty",
       __loader="resolver")
fields("yatiml/constructors.py::EnumConstructor", class_="Ty")
fields("yatiml/constructors.py::UserStringConstructor", class_="Ty")
fields("yatiml/constructors.py::PathConstructor")


@contract("yatiml/constructors.py::Constructor.__strip_extra_attributes")
def _(self, node, known_attrs):
    properties('C04', 'C08')
    sort('known_attrs', 'Set[str]')
    requires(node.kind == MAP)
    requires(in_strs('self', known_attrs))        # a valid __init__ (E-ARGSPEC)
    modifies(node)
    raises(RecognitionError)
    raises_msg(RecognitionError, lambda m: cites(m))
    # all keys are plain str scalars, and everything below a key that is not
    # a constructor parameter is plain data: nothing there can be constructed
    ensures(node.kind == MAP and len(node.pairs) == len(old(node).pairs))
    ensures(extras_plain(node.pairs, strs_remove(strs_remove(
        known_attrs, 'self'), '_yatiml_extra'), len(node.pairs)))
    invariant(0, lambda _i: node.kind == MAP
              and len(node.pairs) == len(old(node).pairs)
              and _i <= len(node.pairs)
              and extras_plain(node.pairs, known_keys, _i))


@contract("yatiml/constructors.py::EnumConstructor.__call__")
def _(self, loader, node):
    properties('C08', 'C05', 'C01')
    sort('loader', 'resolver')
    # only RecognitionError; the member is looked up by NAME
    raises(RecognitionError)
    raises_msg(RecognitionError, lambda m: cites(m))
    ensures(node.kind == SCALAR and enum_has(self.class_, node.val))
    ensures(is_enum_member(yielded(), self.class_, node.val))


@contract("yatiml/constructors.py::UserStringConstructor.__call__")
def _(self, loader, node):
    properties('C08', 'C05', 'C01')
    sort('loader', 'resolver')
    # whatever the user's class raises is reported as a RecognitionError
    raises(RecognitionError)
    raises_msg(RecognitionError, lambda m: cites(m))
    ensures(node.kind == SCALAR and new_ok(self.class_, node.val))
    ensures(is_obj_of(yielded(), 'strlike', self.class_, node.val))


@contract("yatiml/constructors.py::PathConstructor.__call__")
def _(self, loader, node):
    properties('C08', 'C05', 'C01')
    sort('loader', 'resolver')
    raises(RecognitionError)
    raises_msg(RecognitionError, lambda m: cites(m))
    ensures(node.kind == SCALAR)
    ensures(is_obj_of(yielded(), 'path'))


@contract("yatiml/constructors.py::Constructor.__type_matches")
def _(self, obj, type_):
    properties('C01', 'C04')
    sort('obj', 'PyV')
    sort('type_', 'Ty')
    # exactly the statement's conformance check, for every value and type
    ensures(result == tm(obj, type_))
    invariant(0, lambda _i: _i <= len(ty_members(type_))
              and not tm_any(obj, ty_members(type_), _i))
    invariant(1, lambda _i: _i <= len(py_items(obj))
              and tm_all(py_items(obj), ty_elem(type_), _i))
    invariant(2, lambda _i: _i <= len(py_keys(obj))
              and tm_pairs(py_keys(obj), py_vals(obj), ty_key(type_),
                           ty_dval(type_), _i))


@contract("yatiml/constructors.py::Constructor.__check_no_missing_attributes")
def _(self, node, mapping):
    properties('C01', 'C08', 'C17')
    sort('mapping', 'PyDict')
    requires(node.kind == MAP)
    # returns normally exactly when every required parameter has an argument
    # and every argument that is present conforms to its parameter's type
    raises(RecognitionError, when=not cna_ok(mapping, self.class_,
                                        cls_nparams(self.class_)))
    raises_msg(RecognitionError, lambda m: cites(m))
    ensures(cna_ok(mapping, self.class_, cls_nparams(self.class_)))
    invariant(0, lambda _i: _i <= cls_nparams(self.class_)
              and cna_ok(mapping, self.class_, _i))


@contract("yatiml/constructors.py::Constructor.__type_check_attributes")
def _(self, node, mapping, argspec):
    properties('C01', 'C08', 'C17')
    sort('mapping', 'PyDict')
    sort('argspec', 'ArgSpec')
    requires(node.kind == MAP)
    requires(keys_from(py_keys(mapping), node.pairs, len(py_keys(mapping))))
    raises(RecognitionError, when=not tca_ok(
        py_keys(mapping), py_vals(mapping), argspec, len(py_keys(mapping))))
    raises_msg(RecognitionError, lambda m: cites(m))
    ensures(tca_ok(py_keys(mapping), py_vals(mapping), argspec,
                   len(py_keys(mapping))))
    invariant(0, lambda _i: node == old(node) and _i <= len(py_keys(mapping))
              and tca_ok(py_keys(mapping), py_vals(mapping), argspec, _i))
    # the key / value node whose position the message cites
    invariant(1, lambda _i, _acc: _i <= len(node.pairs)
              and len(_acc) == cnt(node.pairs, py_str(key), _i))
    invariant(2, lambda _i, _acc: _i <= len(node.pairs)
              and len(_acc) == cnt(node.pairs, py_str(key), _i))


@contract("yatiml/constructors.py::Constructor.__split_off_extra_attributes")
def _(self, mapping, known_attrs):
    # dict surgery (copy / OrderedDict / del): outside the verified subset;
    # compared with an independent oracle by a bounded native stand-in
    trusted()
    bounded()
    sort('mapping', 'PyDict')
    sort('known_attrs', 'Set[str]')
    result_sort('PyDict')


@contract("yatiml/constructors.py::Constructor.__call__")
def _(self, loader, node):
    properties('C01', 'C04', 'C08', 'C17')
    sort('loader', 'resolver')
    modifies(node)
    # only RecognitionError (its message citing a position) or PyYAML's own
    # error leaves the constructor, whatever the user's __init__ raises
    raises(RecognitionError)
    raises(YAMLError)
    raises_msg(RecognitionError, lambda m: cites(m))
    # the user's __init__ has run, and it ran on a mapping that passed the
    # attribute checks: every required parameter present, every argument
    # conforming to its parameter's type / annotation, no unknown keys
    # unless the class takes _yatiml_extra
    ensures(init_called())
    ensures(cna_ok(constructed(), self.class_, cls_nparams(self.class_)))
    ensures(tca_ok(py_keys(constructed()), py_vals(constructed()),
                   cls_argspec(self.class_), len(py_keys(constructed()))))
    ensures(in_strs('_yatiml_extra', as_args(cls_argspec(self.class_)))
            or init_args() == constructed())
    # everything below an unknown key was made plain data before anything
    # was constructed (C04)
    ensures(node.kind == MAP and extras_plain(node.pairs, strs_remove(
        strs_remove(as_args(cls_argspec(self.class_)), 'self'),
        '_yatiml_extra'), len(node.pairs)))
