"""Contract for Dumper.emit_json (C07): the step contract of DESIGN 7.7.

Loop-free, all inputs symbolic (any stack, any indent, any event): every
transition of the state machine is covered."""
from pyvc.contract_api import *    # noqa

fields("yatiml/dumper.py::Dumper", _json_state="Seq[int]", _cur_indent="int",
       _requested_indent="PV", _kv_sep="str", best_indent="int",
       best_line_break="str", allow_unicode="bool", stream="jstream")


@contract("yatiml/dumper.py::Dumper.emit_json")
def _(self, event):
    properties('C07')
    sort('event', 'event')
    # representation invariant of the dumper (established by Dumper.__init__)
    requires(len(self._json_state) >= 1)
    requires(self._kv_sep == ':' or self._kv_sep == ': ')
    requires(pv_is_none(self._requested_indent)
             or pv_is_int(self._requested_indent))
    requires(is_json_ws(self.best_line_break))              # E-EMITTER-INIT
    # E-SERIALIZE: stream/document events arrive only at depth 0, end events
    # only inside the container they close
    requires(implies(not is_value_event(event) and not is_end_event(event),
                     self._json_state[len(self._json_state) - 1] == JS_NONE))
    requires(implies(is_end_event(event), len(self._json_state) >= 2))
    # E-REPRESENT: spelling of bool scalars; numbers are JSON numbers (the
    # property's precondition: finite floats), checked as language obligations
    requires(implies(event.kind == EK_SCALAR and event.tag == BOOL_TAG_J,
                     lower(event.value) == 'true'
                     or lower(event.value) == 'false'))
    requires(implies(event.kind == EK_SCALAR and event.tag != BOOL_TAG_J
                     and event.tag != STR_TAG_J and event.tag != NULL_TAG_J
                     and event.tag != TS_TAG_J, is_json_number(event.value)))
    raises(RuntimeError, when=event.kind == EK_ALIAS)
    ensures(event.kind != EK_ALIAS)
    # --- tokens appended to the output
    ensures(implies(event.kind == EK_SCALAR, jtokens(self.stream) == old(
        jtokens(self.stream)) + sep_tokens(old(self._json_state)[
            len(old(self._json_state)) - 1])
        + [scalar_literal(event, self.allow_unicode)]))
    ensures(implies(event.kind == EK_SEQ_START, jtokens(self.stream) == old(
        jtokens(self.stream)) + sep_tokens(old(self._json_state)[
            len(old(self._json_state)) - 1]) + ['[']))
    ensures(implies(event.kind == EK_MAP_START, jtokens(self.stream) == old(
        jtokens(self.stream)) + sep_tokens(old(self._json_state)[
            len(old(self._json_state)) - 1]) + ['{']))
    ensures(implies(event.kind == EK_SEQ_END, jtokens(self.stream) == old(
        jtokens(self.stream)) + [']']))
    ensures(implies(event.kind == EK_MAP_END, jtokens(self.stream) == old(
        jtokens(self.stream)) + ['}']))
    ensures(implies(not is_value_event(event) and not is_end_event(event),
                    jtokens(self.stream) == old(jtokens(self.stream))))
    # --- the state stack
    ensures(implies(event.kind == EK_SCALAR,
                    self._json_state == old(self._json_state)[
                        :len(old(self._json_state)) - 1] + [next_state(
                            old(self._json_state)[
                                len(old(self._json_state)) - 1])]))
    ensures(implies(event.kind == EK_SEQ_START,
                    self._json_state == old(self._json_state)[
                        :len(old(self._json_state)) - 1] + [next_state(
                            old(self._json_state)[
                                len(old(self._json_state)) - 1])]
                    + [JS_SEQUENCE_FIRST]))
    ensures(implies(event.kind == EK_MAP_START,
                    self._json_state == old(self._json_state)[
                        :len(old(self._json_state)) - 1] + [next_state(
                            old(self._json_state)[
                                len(old(self._json_state)) - 1])]
                    + [JS_MAPPING_KEY_FIRST]))
    ensures(implies(is_end_event(event),
                    self._json_state == old(self._json_state)[
                        :len(old(self._json_state)) - 1]))
    ensures(implies(not is_value_event(event) and not is_end_event(event),
                    self._json_state == old(self._json_state)))
    must_fail(jtokens(self.stream) == old(jtokens(self.stream)))
