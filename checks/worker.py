"""worker process: verifies a subset of the functions of a check (reads a job
as JSON on stdin, prints the result as JSON on stdout)"""
import json
import os
import sys

VERIF = os.path.dirname(os.path.dirname(os.path.abspath(__file__)))
sys.path.insert(0, VERIF)
from checks.main import Run      # noqa: E402


def main():
    job = json.load(sys.stdin)
    run = Run('worker', 'quick', 0, job['repo'])
    run.budget = job['budget']
    carves = {k: [tuple(x) for x in v] for k, v in job['carves'].items()}
    run.verify_in_process(job['targets'], opts=job['opts'], carves=carves,
                          lemmas=job['lemmas'],
                          facts=[tuple(f) for f in job['facts']],
                          solver_jobs=job.get('solver_jobs'))
    out = {
        'items': [{'group': it.group, 'kind': it.kind, 'label': it.label,
                   'status': it.status, 'backend': it.backend,
                   'time': it.time, 'function': it.function,
                   'props': it.props, 'witness': it.witness,
                   'note': it.note, 'cls': it.cls} for it in run.items],
        'functions': run.functions,
        'unsupported': run.unsupported,
        'broken': run.broken,
        'assumptions': sorted(run.assumptions),
        'timing': {'symexec_s': run.timing.get('symexec_s', 0),
                   'solve_s': run.timing.get('solve_s', 0)},
    }
    sys.stdout.write(json.dumps(out, default=str))


if __name__ == '__main__':
    main()
