"""BOUNDED stand-in (never counted as proved) for the part of C06 that is not
under contract: Representer.__call__ and the end-to-end dump.  Runs the REAL
dumps functions under /venv/bin/python.

For every class model x value below:
  (1) the text is one YAML document without explicit tags ('!' never starts a
      token outside quoted scalars: checked on PyYAML's token stream);
  (2) read by a plain YAML loader (yaml.SafeLoader, dicts keep order) it
      equals the projection written independently here: constructor
      parameters in declaration order, then extra attributes in their order
      (or what _yatiml_attributes returns), enum members by name, string-likes
      and paths by str(), dict and list order kept, then the classes' own
      _yatiml_sweeten applied base first;
  (3) a deep snapshot of the object graph is the same before and after;
  (4) a second dump gives the identical text.
Bound: 10 class models (plain, defaults, _yatiml_extra at each of 3 positions,
_yatiml_attributes, 2-level inheritance with sweeten in base and derived,
enum / UserString / Path attributes, nested objects, Optional/List/Dict
attributes) x the values enumerated in values_for(); extras with 0-2 entries
in both orders.  Prints a JSON record."""
import collections
import copy
import enum
import itertools
import json
import pathlib
from collections import OrderedDict
from typing import Any, Dict, List, Optional

import yaml
import yatiml

failures = []
evals = 0


def record(what, model, obj, got, want):
    failures.append({'clause': what, 'model': model, 'object': repr(obj)[:200],
                     'got': repr(got)[:300], 'expected': repr(want)[:300]})


class Color(enum.Enum):
    red = 1
    dark_blue = 2


class Shade(str, enum.Enum):
    """an enum that is also string-like: still dumped by member NAME"""
    LIGHT = 'l'
    DARK = 'd'


class Name(collections.UserString):
    pass


class Plain:
    def __init__(self, a: int, b: str, c: float) -> None:
        self.a = a
        self.b = b
        self.c = c


class Rev:
    """attributes assigned in the opposite order of the parameters"""
    def __init__(self, x: int, y: Optional[str] = None,
                 z: Optional[List[int]] = None) -> None:
        self.z = z
        self.y = y
        self.x = x


class Ex0:
    def __init__(self, _yatiml_extra: Dict[str, Any], a: int, b: str) -> None:
        self.a = a
        self.b = b
        self._yatiml_extra = _yatiml_extra


class Ex1:
    def __init__(self, a: int, _yatiml_extra: Dict[str, Any], b: str) -> None:
        self.a = a
        self.b = b
        self._yatiml_extra = _yatiml_extra


class Ex2:
    def __init__(self, a: int, b: str, _yatiml_extra: Dict[str, Any]) -> None:
        self.a = a
        self.b = b
        self._yatiml_extra = _yatiml_extra


class Attrs:
    def __init__(self, a: int, b: str) -> None:
        self._a = a
        self._b = b

    def _yatiml_attributes(self) -> OrderedDict:
        return OrderedDict([('b', self._b), ('a', self._a)])


class Base:
    def __init__(self, p: int) -> None:
        self.p = p

    @classmethod
    def _yatiml_sweeten(cls, node: yatiml.Node) -> None:
        node.set_attribute('from_base', 'B')


class Derived(Base):
    def __init__(self, p: int, q: str) -> None:
        super().__init__(p)
        self.q = q

    @classmethod
    def _yatiml_sweeten(cls, node: yatiml.Node) -> None:
        # visible only if Base's ran first
        if node.has_attribute('from_base'):
            node.set_attribute('from_derived', 'D')
        node.rename_attribute('q', 'Q')


class Rich:
    def __init__(self, color: Color, name: Name, path: pathlib.Path,
                 inner: Plain, many: List[Plain],
                 table: Dict[str, int]) -> None:
        self.color = color
        self.name = name
        self.path = path
        self.inner = inner
        self.many = many
        self.table = table


def snapshot(o, seen=None):
    """deep structural snapshot incl. attribute order and identities"""
    seen = seen if seen is not None else {}
    if id(o) in seen:
        return ('ref', seen[id(o)])
    if isinstance(o, (str, int, float, bool, type(None), pathlib.Path,
                      enum.Enum)):
        return ('v', type(o).__name__, repr(o))
    seen[id(o)] = len(seen)
    if isinstance(o, collections.UserString):
        return ('us', type(o).__name__, o.data)
    if isinstance(o, (list, tuple)):
        return ('l', [snapshot(x, seen) for x in o])
    if isinstance(o, dict):
        return ('d', type(o).__name__, [(snapshot(k, seen), snapshot(v, seen))
                                        for k, v in o.items()])
    return ('o', type(o).__name__, [(k, snapshot(v, seen))
                                    for k, v in vars(o).items()])


def project(o):
    """the statement's projection, as plain data (lists of pairs for
    mappings so that order is compared)"""
    if isinstance(o, enum.Enum):
        return o.name
    if isinstance(o, bool) or o is None or isinstance(o, (int, float, str)):
        return o
    if isinstance(o, (collections.UserString, pathlib.Path)):
        return str(o)
    if isinstance(o, (list, tuple)):
        return [project(x) for x in o]
    if isinstance(o, dict):
        return ('map', [(project(k), project(v)) for k, v in o.items()])
    cls = type(o)
    if hasattr(o, '_yatiml_attributes'):
        pairs = [(k, project(v)) for k, v in o._yatiml_attributes().items()]
    else:
        import inspect
        names = [p for p in inspect.signature(cls.__init__).parameters][1:]
        pairs = [(n, project(getattr(o, n))) for n in names
                 if n != '_yatiml_extra']
        if '_yatiml_extra' in names:
            pairs += [(k, project(v)) for k, v in o._yatiml_extra.items()]
    # the classes' own sweeten, base first (written out per model)
    if isinstance(o, Base):
        pairs.append(('from_base', 'B'))
    if isinstance(o, Derived):
        pairs.append(('from_derived', 'D'))
        pairs = [('Q' if k == 'q' else k, v) for k, v in pairs]
    return ('map', pairs)


def plain(node_data):
    if isinstance(node_data, dict):
        return ('map', [(plain(k), plain(v)) for k, v in node_data.items()])
    if isinstance(node_data, list):
        return [plain(x) for x in node_data]
    return node_data


def has_explicit_tag(text):
    return any(isinstance(t, yaml.TagToken) for t in yaml.scan(text))


def check_one(model, dumps, obj):
    global evals
    evals += 1
    before = snapshot(obj)
    try:
        text = dumps(obj)
    except Exception as ex:      # noqa
        record('dump raised', model, obj, repr(ex), 'text')
        return
    after = snapshot(obj)
    if before != after:
        record('object graph modified', model, obj, after, before)
    try:
        docs = list(yaml.load_all(text, Loader=yaml.SafeLoader))
    except Exception as ex:      # noqa
        record('not plain YAML', model, obj, repr(ex) + text, 'loadable')
        return
    if len(docs) != 1:
        record('one document', model, obj, len(docs), 1)
        return
    if has_explicit_tag(text):
        record('explicit tag in text', model, obj, text, 'no tags')
    got, want = plain(docs[0]), project(obj)
    if got != want:
        record('projection', model, obj, got, want)
    try:
        text2 = dumps(obj)
    except Exception as ex:      # noqa
        text2 = repr(ex)
    if text2 != text:
        record('repeated dump differs', model, obj, text2, text)


INTS = [0, -3, 12]
STRS = ['x', '', 'true', '1e3', 'a: b', 'multi\nline', '~']
FLOATS = [1.5, 1e300]


def extras():
    ents = [('e1', 1), ('e2', [1, 'two']), ('a-b', {'k': None})]
    yield OrderedDict()
    for n in (1, 2):
        for combo in itertools.permutations(ents, n):
            yield OrderedDict(combo)


def main():
    d_plain = yatiml.dumps_function(Plain)
    for a, b, c in itertools.product(INTS, STRS, FLOATS):
        check_one('Plain', d_plain, Plain(a, b, c))
    d_rev = yatiml.dumps_function(Rev)
    for x in INTS:
        for y in [None] + STRS[:3]:
            for z in (None, [], [1, 2], [3, 1, 2]):
                check_one('Rev', d_rev, Rev(x, y, z))
    for K in (Ex0, Ex1, Ex2):
        d = yatiml.dumps_function(K)
        for ex in extras():
            for b in STRS[:4]:
                check_one(K.__name__, d, K(_yatiml_extra=ex, a=1, b=b))
    d_attrs = yatiml.dumps_function(Attrs)
    for a, b in itertools.product(INTS, STRS):
        check_one('Attrs', d_attrs, Attrs(a, b))
    d_der = yatiml.dumps_function(Base, Derived)
    for p, q in itertools.product(INTS, STRS):
        check_one('Derived', d_der, Derived(p, q))
        check_one('Base', d_der, Base(p))
    # only the derived class registered: Base's sweeten must not run
    d_only = yatiml.dumps_function(Derived)
    for p in INTS:
        o = Derived(p, 'q')
        global evals
        evals += 1
        want = ('map', [('p', p), ('Q', 'q')])
        try:
            got = plain(yaml.safe_load(d_only(o)))
        except Exception as ex:      # noqa
            got = repr(ex)
        if got != want:
            record('sweeten of an unregistered base', 'Derived only', o, got,
                   want)
    d_rich = yatiml.dumps_function(Rich, Plain, Color, Name)
    for color in Color:
        for nm in ('n', 'yes', ''):
            for many in ([], [Plain(1, 'x', 1.5)],
                         [Plain(2, 'b', 2.5), Plain(1, 'a', 0.5)]):
                for table in ({}, {'z': 1, 'a': 2}, {'a': 2, 'z': 1}):
                    check_one('Rich', d_rich, Rich(
                        color, Name(nm), pathlib.Path('/tmp/x y'),
                        Plain(0, '', 1.5), many, table))
    d_shade = yatiml.dumps_function(Shade)
    d_shades = yatiml.dumps_function(Shade)
    for sh in Shade:
        check_one('Shade', d_shade, sh)
        check_one('List[Shade]', d_shades, [sh, Shade.LIGHT])
    # shared sub-object: dumped twice, no anchors required by the statement,
    # but the text must still load to the projection
    shared = Plain(1, 's', 1.5)
    check_one('Rich shared', d_rich, Rich(Color.red, Name('n'),
                                          pathlib.Path('p'), shared,
                                          [shared], {}))
    print(json.dumps({'evaluations': evals, 'n_failures': len(failures),
                      'failures': failures[:6]}))


if __name__ == '__main__':
    main()
