"""BOUNDED stand-in (DESIGN 7.19, never counted as proved) for the reflection
helpers whose contracts the prover assumes: is_generic_sequence/mapping/union,
generic_type_args, is_string_like, is_abstract, class_subobjects,
defaulted_attributes.  Runs under /venv/bin/python against the real code; the
oracles are written independently (typing.get_origin/get_args,
inspect.signature).

Bound: all type terms up to depth 2 over a pool of 12 classes and the built-in
scalars with the 3+3 generic sequence/mapping aliases, Union, Optional; all
__init__ signatures with up to 3 parameters, each annotated or not, defaults
on a suffix, and _yatiml_extra at every position (with and without default).
Prints a JSON record."""
import abc
import collections
import enum
import inspect
import itertools
import json
import sys
import typing
from collections import abc as cabc
from datetime import date
from pathlib import Path
from typing import (Any, Dict, List, Mapping, MutableMapping,
                    MutableSequence, Optional, Sequence, Union)

import yatiml
from yatiml import util
from yatiml.introspection import class_subobjects, defaulted_attributes


class Plain:
    def __init__(self, a: int) -> None:
        self.a = a


class Sub(Plain):
    pass


class Color(enum.Enum):
    red = 1


class MyStr(str):
    pass


class MyUS(collections.UserString):
    pass


class MyTagged(yatiml.String):
    def __init__(self, s: str) -> None:
        self.s = s


class SubUS(MyUS):
    pass


class AbcBase(abc.ABC):
    pass


class AbcChild(AbcBase):
    pass


class WithAbstract:
    @abc.abstractmethod
    def f(self) -> None:
        pass


class AbstractViaMeta(metaclass=abc.ABCMeta):
    @abc.abstractmethod
    def f(self) -> None:
        pass


class ConcreteImpl(AbstractViaMeta):
    def f(self) -> None:
        pass


class Mixin:
    pass


class Multi(Mixin, Plain):
    pass


POOL = [Plain, Sub, Color, MyStr, MyUS, MyTagged, SubUS, AbcBase, AbcChild,
        WithAbstract, AbstractViaMeta, ConcreteImpl, Multi]
SCALARS = [str, int, float, bool, type(None), date, Path, util.bool_union_fix,
           Any]
SEQ = [List, Sequence, MutableSequence]
MAP = [Dict, Mapping, MutableMapping]

failures = []
evals = 0


def check(name, got, want, what):
    global evals
    evals += 1
    if got != want:
        failures.append({'helper': name, 'input': repr(what), 'got': repr(got),
                         'expected': repr(want)})


def types(depth):
    base = SCALARS + POOL
    if depth == 0:
        return list(base)
    smaller = types(depth - 1)
    small0 = types(0)
    out = list(base)
    for g in SEQ:
        for t in smaller:
            out.append(g[t])
    for g in MAP:
        for k in (str, MyStr, MyUS):
            for t in (smaller if depth == 1 else small0):
                out.append(g[k, t])
    for a, b in itertools.combinations(small0[:12], 2):
        out.append(Union[a, b])
    for t in small0:
        if t is not type(None) and t is not Any:
            out.append(Optional[t])
    out.append(Union[str, int, List[int]])
    return out


def run_types():
    for t in types(2):
        origin = typing.get_origin(t)
        args = typing.get_args(t)
        check('is_generic_sequence', util.is_generic_sequence(t),
              origin in (list, cabc.Sequence, cabc.MutableSequence), t)
        check('is_generic_mapping', util.is_generic_mapping(t),
              origin in (dict, cabc.Mapping, cabc.MutableMapping), t)
        check('is_generic_union', util.is_generic_union(t), origin is Union,
              t)
        if origin is not None:
            check('generic_type_args', util.generic_type_args(t), list(args),
                  t)
    for c in POOL + [str, int, float, bool, date]:
        mro = c.__mro__
        check('is_string_like', util.is_string_like(c), any(
            b in (str, collections.UserString, yatiml.String) for b in mro),
            c)
        check('is_abstract', util.is_abstract(c),
              abc.ABC in c.__bases__ or bool(getattr(
                  c, '__abstractmethods__', ())), c)
    for t in (List[int], Union[int, str], Any, None):
        check('is_abstract', util.is_abstract(t), False, t)


def signatures():
    names = ['a', 'b', 'c']
    for n in range(0, 4):
        ps = names[:n]
        for ann in itertools.product([False, True], repeat=n):
            for ndef in range(0, n + 1):          # defaults on a suffix
                for xpos in [None] + list(range(0, n + 1)):
                    for xdef in ([False, True] if xpos is not None
                                 else [False]):
                        params = []
                        for i, p in enumerate(ps):
                            params.append((p, ann[i], i >= n - ndef))
                        if xpos is not None:
                            params.insert(xpos, ('_yatiml_extra', False,
                                                 xdef))
                        # python: no non-default after a default
                        seen_def = False
                        ok = True
                        for (_, _, d) in params:
                            if d:
                                seen_def = True
                            elif seen_def:
                                ok = False
                        if ok:
                            yield params


def make_class(params, user_defaults=None):
    parts = ['self']
    for (p, a, d) in params:
        s = p
        if a:
            s += ': int'
        if d:
            s += ' = 7' if p != '_yatiml_extra' else ' = None'
        parts.append(s)
    src = 'class K:\n    def __init__(%s) -> None:\n        pass\n' % (
        ', '.join(parts))
    if user_defaults is not None:
        src += '    _yatiml_defaults = %r\n' % (user_defaults,)
    ns = {}
    exec(src, ns)
    return ns['K'], src


def run_signatures():
    for params in signatures():
        K, src = make_class(params)
        sig = inspect.signature(K.__init__)
        want = []
        for nm, prm in list(sig.parameters.items())[1:]:
            if nm == '_yatiml_extra':
                continue
            want.append((nm, Any if prm.annotation is inspect.Parameter.empty
                         else prm.annotation,
                         prm.default is inspect.Parameter.empty))
        check('class_subobjects', list(class_subobjects(K)), want, src)
        wd = {nm: prm.default for nm, prm in list(sig.parameters.items())[1:]
              if prm.default is not inspect.Parameter.empty}
        check('defaulted_attributes', defaulted_attributes(K), wd, src)
        # user overrides apply to defaulted parameters only
        real = [p for (p, _, _) in params]
        for ud in ({'a': 1}, {'c': 2, 'zz': 3}):
            K2, src2 = make_class(params, ud)
            w2 = dict(wd)
            for k, v in ud.items():
                if k in w2:
                    w2[k] = v
            check('defaulted_attributes', defaulted_attributes(K2), w2, src2)


def main():
    run_types()
    run_signatures()
    print(json.dumps({'evaluations': evals, 'failures': failures[:5],
                      'n_failures': len(failures)}))


if __name__ == '__main__':
    main()
