"""BOUNDED end-to-end stand-in for C01 (never counted as proved): the REAL
load functions on an enumerated family of documents x class models; whatever
load returns must conform to the declared type, judged by a deep conformance
check written independently here from the property statement (built-in scalars
of exactly the declared kind -- bool is not an int --, lists / dicts
element-wise, unions some member, classes: an instance whose constructor
parameters all conform, recursively).  Complements the contracts where they
are silent: the recursion of Loader.__process_node into the attributes of a
class node (whose input is what the user's savorize hook left) is not part of
proc_rel.

Bound: 8 class models (plain, nested, list / dict / union / optional
attributes, permissive custom _yatiml_recognize, savorize that rewrites an
attribute, inheritance, string-like and enum attributes) x documents built
from 14 scalar spellings per attribute (ints, floats, bools, null, strings
that look like them, quoted), lists and mappings of up to 2 of them.  Prints
a JSON record."""
import collections
import enum
import itertools
import json
from typing import Any, Dict, List, Optional, Union

import yaml
import yatiml

failures = []
evals = 0
returned = 0

SCALARS = ['1', '-3', '0x1F', '1.5', '1e3', '.inf', 'true', 'False', 'yes',
           'null', '~', 'abc', '"1"', "'true'"]


class Color(enum.Enum):
    red = 1
    green = 2


class Name(collections.UserString):
    pass


class Plain:
    def __init__(self, a: int, b: str, c: float = 1.0) -> None:
        self.a, self.b, self.c = a, b, c


class Coll:
    def __init__(self, xs: List[int], m: Dict[str, bool],
                 u: Union[int, str], o: Optional[float] = None) -> None:
        self.xs, self.m, self.u, self.o = xs, m, u, o


class Outer:
    def __init__(self, inner: Plain, many: List[Plain]) -> None:
        self.inner, self.many = inner, many


class Permissive:
    """recognises every mapping: the attribute types are then only enforced
    by the recursion into the attributes and the constructor's check"""
    def __init__(self, name: str, retries: int, ratio: float,
                 flag: bool) -> None:
        self.name, self.retries, self.ratio, self.flag = (
            name, retries, ratio, flag)

    @classmethod
    def _yatiml_recognize(cls, node: yatiml.UnknownNode) -> None:
        node.require_mapping()


class Rewriting:
    """savorize moves a short-hand attribute to the declared one"""
    def __init__(self, count: int, label: str = 'x') -> None:
        self.count, self.label = count, label

    @classmethod
    def _yatiml_recognize(cls, node: yatiml.UnknownNode) -> None:
        node.require_mapping()

    @classmethod
    def _yatiml_savorize(cls, node: yatiml.Node) -> None:
        if node.has_attribute('n'):
            node.rename_attribute('n', 'count')


class Base:
    def __init__(self, p: int) -> None:
        self.p = p


class Derived(Base):
    def __init__(self, p: int, q: str) -> None:
        super().__init__(p)
        self.q = q


class Rich:
    def __init__(self, color: Color, name: Name, tags: List[Name]) -> None:
        self.color, self.name, self.tags = color, name, tags


def conforms(v, t):
    """the statement's conformance, written independently of yatiml"""
    import typing
    if t is Any:
        return True
    o = typing.get_origin(t)
    if o is Union:
        return any(conforms(v, a) for a in typing.get_args(t))
    if o in (list, collections.abc.Sequence):
        return isinstance(v, list) and all(
            conforms(x, typing.get_args(t)[0]) for x in v)
    if o in (dict, collections.abc.Mapping):
        ka, va = typing.get_args(t)
        return isinstance(v, dict) and all(
            conforms(k, ka) and conforms(x, va) for k, x in v.items())
    if t is type(None):
        return v is None
    if t is bool:
        return isinstance(v, bool)
    if t is int:
        return isinstance(v, int) and not isinstance(v, bool)
    if t is float:
        return isinstance(v, float)
    if t is str:
        return type(v) is str
    if isinstance(t, type) and issubclass(t, enum.Enum):
        return isinstance(v, t)
    if isinstance(t, type) and issubclass(t, collections.UserString):
        return isinstance(v, t)
    if isinstance(t, type):
        if not isinstance(v, t):
            return False
        import inspect
        sig = inspect.signature(type(v).__init__)
        for nm, prm in list(sig.parameters.items())[1:]:
            if prm.annotation is inspect.Parameter.empty or \
                    nm == '_yatiml_extra':
                continue
            if not hasattr(v, nm):
                continue
            if not conforms(getattr(v, nm), prm.annotation):
                return False
        return True
    return True


def try_load(model, load, typ, text):
    global evals, returned
    evals += 1
    try:
        v = load(text)
    except (yatiml.RecognitionError, yaml.YAMLError):
        return
    except Exception as ex:      # noqa  (C08's business; reported there)
        return
    returned += 1
    if not conforms(v, typ):
        failures.append({'model': model, 'text': text,
                         'loaded': repr(getattr(v, '__dict__', v))[:200]})


def main():
    l_plain = yatiml.load_function(Plain)
    for a, b in itertools.product(SCALARS, SCALARS):
        try_load('Plain', l_plain, Plain, 'a: %s\nb: %s\n' % (a, b))
    for c in SCALARS:
        try_load('Plain', l_plain, Plain, 'a: 1\nb: x\nc: %s\n' % c)
    l_coll = yatiml.load_function(Coll)
    for x, y in itertools.product(SCALARS, SCALARS[:8]):
        try_load('Coll', l_coll, Coll,
                 'xs: [%s, 2]\nm: {k: %s}\nu: %s\no: %s\n' % (x, y, x, y))
        try_load('Coll', l_coll, Coll,
                 'xs: [1]\nm: {k: true, %s: false}\nu: %s\n' % (x, y))
    l_outer = yatiml.load_function(Outer, Plain)
    for a, b in itertools.product(SCALARS, SCALARS[:6]):
        try_load('Outer', l_outer, Outer,
                 'inner: {a: %s, b: %s}\nmany: [{a: 1, b: x}, '
                 '{a: %s, b: y}]\n' % (a, b, a))
    l_perm = yatiml.load_function(Permissive)
    for s in SCALARS:
        try_load('Permissive', l_perm, Permissive,
                 'name: n\nretries: %s\nratio: 1.5\nflag: true\n' % s)
        try_load('Permissive', l_perm, Permissive,
                 'name: %s\nretries: 1\nratio: %s\nflag: %s\n' % (s, s, s))
    l_perms = yatiml.load_function(List[Permissive], Permissive)
    for s in SCALARS:
        try_load('List[Permissive]', l_perms, List[Permissive],
                 '- {name: n, retries: %s, ratio: 1.5, flag: false}\n' % s)
    l_rw = yatiml.load_function(Rewriting)
    for s in SCALARS:
        try_load('Rewriting', l_rw, Rewriting, 'n: %s\n' % s)
        try_load('Rewriting', l_rw, Rewriting, 'count: %s\nlabel: %s\n' % (
            s, s))
    l_der = yatiml.load_function(Base, Derived)
    for a, b in itertools.product(SCALARS, SCALARS[:8]):
        try_load('Base/Derived', l_der, Base, 'p: %s\nq: %s\n' % (a, b))
        try_load('Base/Derived', l_der, Base, 'p: %s\n' % a)
    l_rich = yatiml.load_function(Rich, Color, Name)
    for a, b in itertools.product(SCALARS + ['red', 'green'], SCALARS[:8]):
        try_load('Rich', l_rich, Rich,
                 'color: %s\nname: %s\ntags: [%s, t]\n' % (a, b, b))
    print(json.dumps({'evaluations': evals, 'returned': returned,
                      'n_failures': len(failures),
                      'failures': failures[:6]}))


if __name__ == '__main__':
    main()
