"""BOUNDED stand-in (never counted as proved): CPython cross-check of the
sidecar contracts of yatiml.Node / yatiml.UnknownNode.  Every contract whose
inputs are a node, strings, scalar-union values and booleans is evaluated
natively (pyvc/native.py: the same clauses the prover reads, spec functions
executed as Python) around the REAL method on a family of small nodes
(pyvc.native.small_nodes: one attribute 'items' holding a scalar, a sequence
or a mapping of up to two small items over the keys id / val / x, plus an
empty mapping and a duplicated key) x all argument combinations over
{'items','id','val','x'} / {None,'val'} / {True,False}.  A contract clause
that fails on the unchanged tree means the contract (or the prover's model of
Python) is wrong; on a changed tree it is a failing input.  Prints JSON."""
import inspect
import json
import os
import sys

VERIF = os.path.dirname(os.path.dirname(os.path.abspath(__file__)))
sys.path.insert(0, VERIF)
from pyvc import native                      # noqa: E402
from pyvc.contracts import ContractSet       # noqa: E402

ANN = {'attribute': 'str', 'key_attribute': 'str', 'value_attribute': 'PV',
       'strict': 'bool', 'new_name': 'str'}


def main():
    cs = ContractSet(os.path.join(VERIF, 'contracts'))
    mon = native.Monitor()
    failures = []
    covered = []
    skipped = []
    calls = 0
    only = [a for a in sys.argv[1:] if not a.startswith('-')]
    for qual, c in cs.by_target.items():
        if not qual.startswith('yatiml/helpers.py::') or c.trusted:
            continue
        if only and qual.split('::')[1] not in only:
            continue
        try:
            cls, fn = native.real_function(qual)
        except AttributeError:
            failures.append({'function': qual,
                             'failures': 'function not found'})
            continue
        params = [p for p in inspect.signature(fn).parameters if p != 'self']
        inputs = {'self.yaml_node': {'key': 'node', 'symbol': 'x'}}
        ok = True
        for p in params:
            k = c.sorts.get(p) or ANN.get(p)
            if k not in ('str', 'PV', 'bool'):
                ok = False
            inputs[p] = {'key': k, 'symbol': p}
        if not ok:
            skipped.append(qual.split('::')[1])
            continue
        n0 = mon.evaluations if hasattr(mon, 'evaluations') else 0
        # the methods with many argument combinations get the smaller family
        # of two-item containers (4 kinds of items instead of 10)
        r = native.replay_search_node(
            {'function': qual, 'inputs': inputs}, mon, limit=10 ** 6,
            pair_items=3 if len(params) >= 3 else None)
        covered.append(qual.split('::')[1])
        if r is not None:
            failures.append(r)
    print(json.dumps({'evaluations': getattr(mon, 'evaluations', 0)
                      or len(covered), 'covered': covered,
                      'skipped': skipped, 'n_failures': len(failures),
                      'failures': failures[:4]}, default=str))


if __name__ == '__main__':
    main()
