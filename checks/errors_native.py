"""BOUNDED stand-in (never counted as proved) for the end-to-end reading of
C17: the real load function on hierarchy-free class models x one valid
document x single-point corruptions (wrong scalar type, misspelt key, dropped
required key, added key, unknown enum member - including members spelt like
YAML booleans).  For every corruption the load must fail with
RecognitionError whose message
  (1) cites at least one position ("line L, column C");
  (2) cites only positions inside the document;
  (3) cites a position on the line of the corrupted node, of its key, or of
      the start of the enclosing mapping (strong claim: hierarchy-free models);
  (4) names the key, for an unknown or a missing key.
Bound: 3 class models (nested classes with an enum and a list, a list of
mappings as the document type, look-alike attribute names), 35 corruptions.  Prints a JSON record."""
import enum
import json
import re
from typing import List

import yaml
import yatiml


class Mode(enum.Enum):
    fast = 1
    slow = 2


class Inner:
    def __init__(self, x: int, label: str) -> None:
        self.x = x
        self.label = label


class Doc:
    def __init__(self, name: str, count: int, mode: Mode, inner: Inner,
                 tags: List[str], ratio: float = 1.0) -> None:
        self.name = name
        self.count = count
        self.mode = mode
        self.inner = inner
        self.tags = tags
        self.ratio = ratio


class Range:
    def __init__(self, label: str, x_min: int, x_max: int) -> None:
        self.label = label
        self.x_min = x_min
        self.x_max = x_max


BLOCK = [
    'name: n',          # 1
    'count: 3',         # 2
    'mode: fast',       # 3
    'inner:',           # 4
    '  x: 1',           # 5
    '  label: l',       # 6
    'tags:',            # 7
    '- a',              # 8
    '- b',              # 9
    'ratio: 0.5',       # 10
]

# (description, line number to replace (1-based) or None, new line(s),
#  acceptable cited lines, key that must be named or None)
TOP = 1          # the top-level mapping starts on line 1
INNER = 5        # the inner mapping starts on the line of its first key
CORRUPTIONS = [
    ('count is a string', 2, ['count: abc'], {2, TOP}, None),
    ('count is a float', 2, ['count: 1.5'], {2, TOP}, None),
    ('count is a bool', 2, ['count: true'], {2, TOP}, None),
    ('name is an int', 1, ['name: 12'], {1, TOP}, None),
    ('name is null', 1, ['name: null'], {1, TOP}, None),
    ('ratio is a string', 10, ['ratio: high'], {10, TOP}, None),
    ('inner.x is a string', 5, ['  x: one'], {5, 4, INNER, TOP}, None),
    ('inner.x is a bool', 5, ['  x: false'], {5, 4, INNER, TOP}, None),
    ('inner.label is an int', 6, ['  label: 7'], {6, 4, INNER, TOP}, None),
    ('tags item is an int', 8, ['- 5'], {8, 7, TOP}, None),
    ('tags is a scalar', 7, ['tags: x'], {7, TOP}, None),
    ('inner is a scalar', 4, ['inner: 3'], {4, TOP}, None),
    ('misspelt key count', 2, ['cuont: 3'], {2, TOP}, 'cuont'),
    ('misspelt key label', 6, ['  labl: l'], {6, 4, INNER, TOP}, 'labl'),
    ('dropped key count', 2, [], {TOP}, 'count'),
    ('dropped key name', 1, [], {1, TOP}, 'name'),     # mapping now starts
    ('dropped key label', 6, [], {4, INNER, TOP}, 'label'),
    ('added key at top', 10, ['ratio: 0.5', 'extra: 1'], {11, TOP}, 'extra'),
    ('added key in inner', 6, ['  label: l', '  more: 2'],
     {7, 4, INNER, TOP}, 'more'),
    ('unknown enum member', 3, ['mode: turbo'], {3, TOP}, None),
    ('enum member is an int', 3, ['mode: 7'], {3, TOP}, None),
    ('unknown enum member spelt true', 3, ['mode: true'], {3, TOP}, None),
    ('unknown enum member spelt False', 3, ['mode: False'], {3, TOP}, None),
    ('enum member is a list', 3, ['mode: [fast]'], {3, TOP}, None),
]

POS = re.compile(r'line (\d+), column (\d+)')
failures = []
evals = 0


def record(clause, what, text, msg):
    if len(failures) < 40:
        failures.append({'clause': clause, 'corruption': what,
                         'document': text, 'message': msg[:600]})


def check(load, what, lines, want_lines, key):
    global evals
    evals += 1
    text = '\n'.join(lines) + '\n'
    try:
        yaml.safe_load(text)
    except yaml.YAMLError:
        return          # not a parseable document: nothing is claimed
    try:
        load(text)
        return          # the corruption happens to be acceptable: no claim
    except yatiml.RecognitionError as e:
        msg = str(e)
    except yaml.YAMLError:
        return
    except Exception as e:      # noqa  (C08's business, reported there)
        return
    cited = [(int(a), int(b)) for a, b in POS.findall(msg)]
    if not cited:
        record('no position cited', what, text, msg)
        return
    for ln, col in cited:
        if not (1 <= ln <= len(lines) + 1) or col < 1 or (
                ln <= len(lines) and col > len(lines[ln - 1]) + 1):
            record('position outside the document', what, text, msg)
            return
    if not any(ln in want_lines for ln, _ in cited):
        record('no position on the line of the corrupted node, its key or '
               'the enclosing mapping (%s)' % sorted(want_lines), what, text,
               msg)
    if key is not None and key not in msg:
        record('key %r is not named' % key, what, text, msg)


def main():
    load = yatiml.load_function(Doc, Inner, Mode)
    # the valid document loads
    ok = load('\n'.join(BLOCK) + '\n')
    assert isinstance(ok, Doc) and ok.inner.label == 'l'
    for what, ln, new, want, key in CORRUPTIONS:
        lines = BLOCK[:ln - 1] + new + BLOCK[ln:]
        check(load, what, lines, want, key)
    # a second model: the document type is a list of mappings
    load2 = yatiml.load_function(List[Inner], Inner)
    base = ['- x: 1', '  label: a', '- x: 2', '  label: b']
    for what, ln, new, want, key in [
            ('second item x is a string', 3, ['- x: two'], {3}, None),
            ('second item misspelt key', 4, ['  labe: b'], {4, 3}, 'labe'),
            ('second item dropped key', 4, [], {3}, 'label'),
            ('first item added key', 2, ['  label: a', '  z: 1'], {3, 1},
             'z')]:
        lines = base[:ln - 1] + new + base[ln:]
        check(load2, what, lines, want, key)
    # a model with look-alike attribute names
    load3 = yatiml.load_function(Range)
    base = ['label: r', 'x_min: 1', 'x_max: 2']
    for what, ln, new, want, key in [
            ('dropped key x_max (x_min present)', 3, [], {1}, 'x_max'),
            ('dropped key x_min (x_max present)', 2, [], {1}, 'x_min'),
            ('misspelt key x_mxa', 3, ['x_mxa: 2'], {3, 1}, 'x_mxa')]:
        lines = base[:ln - 1] + new + base[ln:]
        check(load3, what, lines, want, key)
    print(json.dumps({'evaluations': evals, 'n_failures': len(failures),
                      'failures': failures[:6]}))


if __name__ == '__main__':
    main()
