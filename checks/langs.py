"""Regular-language obligations (DESIGN 4.4): the resolver tables that the REAL
code builds (obtained by running the real Loader/Dumper construction natively
on every run), PyYAML's `resolve` semantics as a language computation, the
oracles written from the YAML 1.2 core schema / Python / RFC 8259 grammars,
and the decision of inclusion/equality for strings of every length."""
import json
import os
import subprocess
import sys
import time

import z3

VERIF = os.path.dirname(os.path.dirname(os.path.abspath(__file__)))
sys.path.insert(0, VERIF)
from pyvc import relang     # noqa: E402

TAG = 'tag:yaml.org,2002:'

_TABLE_CODE = r'''
import json, sys, hashlib, inspect
import yaml, yaml.resolver, yaml.constructor
import yatiml
def dump(tbl):
    out = []
    for first, lst in tbl.items():
        out.append(["None" if first is None else first,
                    [[tag, rx.pattern, int(rx.flags)] for tag, rx in lst]])
    return out
ld = yatiml.load_function()
inst = ld.loader('')
dm = yatiml.dumps_function()
res = {
  'loader': dump(inst.yaml_implicit_resolvers),
  'dumper': dump(dm.dumper.yaml_implicit_resolvers),
  'pyyaml': dump(yaml.resolver.Resolver.yaml_implicit_resolvers),
  'safe_loader': dump(yaml.SafeLoader.yaml_implicit_resolvers),
  'yaml_version': yaml.__version__,
  'resolve_src_sha': hashlib.sha256(inspect.getsource(
      yaml.resolver.BaseResolver.resolve).encode()).hexdigest()[:16],
  'construct_float_sha': hashlib.sha256(inspect.getsource(
      yaml.constructor.SafeConstructor.construct_yaml_float).encode()
      ).hexdigest()[:16],
  'construct_bool_sha': hashlib.sha256(inspect.getsource(
      yaml.constructor.SafeConstructor.construct_yaml_bool).encode()
      ).hexdigest()[:16],
  'construct_int_sha': hashlib.sha256(inspect.getsource(
      yaml.constructor.SafeConstructor.construct_yaml_int).encode()
      ).hexdigest()[:16],
  'bool_values': sorted(yaml.constructor.SafeConstructor.bool_values),
  'loader_is_instance_table': 'yaml_implicit_resolvers' in vars(inst),
  'class_table_untouched': dump(yaml.SafeLoader.yaml_implicit_resolvers)
      == dump(yaml.resolver.Resolver.yaml_implicit_resolvers),
}
print(json.dumps(res))
'''

# digests of the PyYAML functions whose semantics the obligations encode by
# hand (E-RESOLVE, E-CONSTRUCT-FLOAT/BOOL/INT); a different PyYAML makes the
# check say so instead of silently proving something about other code
PYYAML_EXPECT = {}


def native_tables(repo):
    env = dict(os.environ)
    env['PYTHONPATH'] = repo
    p = subprocess.run(['/venv/bin/python', '-c', _TABLE_CODE], env=env,
                       stdout=subprocess.PIPE, stderr=subprocess.PIPE,
                       text=True, timeout=120)
    if p.returncode != 0:
        raise RuntimeError('cannot obtain the resolver tables from the real '
                           'code: ' + p.stderr[-800:])
    raw = json.loads(p.stdout)
    for k in ('loader', 'dumper', 'pyyaml', 'safe_loader'):
        raw[k] = [(None if first == 'None' else first,
                   [(t, pat, fl) for t, pat, fl in lst])
                  for first, lst in raw[k]]
    return raw


_lang_cache = {}


def mlang(pattern, flags):
    key = (pattern, flags)
    if key not in _lang_cache:
        _lang_cache[key] = relang.match_lang(pattern, flags)
    return _lang_cache[key]


ANY = z3.Full(z3.ReSort(z3.StringSort()))
ANYCHAR = z3.AllChar(z3.ReSort(z3.StringSort()))


def starts_with(c):
    return z3.Concat(z3.Re(z3.StringVal(c)), ANY)


def resolve_lang(table, tag):
    """{s : BaseResolver.resolve(ScalarNode, s, (True, False)) == tag} for the
    given implicit-resolver table.  Semantics encoded (E-RESOLVE): the bucket
    of the first character (bucket '' for the empty string) followed by the
    None bucket, first regexp whose .match() succeeds wins, default str."""
    tbl = dict(table)
    wild = tbl.get(None, [])
    parts = []
    keyed = [k for k in tbl if k is not None]
    for c in keyed:
        cands = list(tbl[c]) + list(wild)
        if c == '':
            dom = z3.Re(z3.StringVal(''))
        else:
            dom = starts_with(c)
        parts.extend(_first_match(cands, tag, dom))
    # first characters without a bucket: only the wildcard entries
    if wild:
        others = z3.Concat(z3.Complement(z3.Union(*[
            z3.Re(z3.StringVal(c)) for c in keyed if c != ''])
            if len([c for c in keyed if c != '']) > 1 else
            z3.Re(z3.StringVal(keyed[0]))), ANY)
        parts.extend(_first_match(list(wild), tag, others))
    if not parts:
        lang = z3.Empty(z3.ReSort(z3.StringSort()))
    elif len(parts) == 1:
        lang = parts[0]
    else:
        lang = z3.Union(*parts)
    if tag == TAG + 'str':
        raise ValueError('use complement of the union of the other tags')
    return lang


def _first_match(cands, tag, dom):
    parts = []
    for i, (t, pat, fl) in enumerate(cands):
        if t != tag:
            continue
        r = z3.Intersect(dom, mlang(pat, fl))
        for (t2, pat2, fl2) in cands[:i]:
            if t2 == tag:
                continue    # an earlier entry of the same tag: same verdict
            r = z3.Intersect(r, z3.Complement(mlang(pat2, fl2)))
        parts.append(r)
    return parts


def all_tags(table):
    return sorted({t for _, lst in table for (t, _, _) in lst})


# ------------------------------------------------------------------ oracles
# written from the YAML 1.2.2 core schema (10.3.2) and the property statement;
# NOT from the code.  fullmatch languages.
D = '[0-9]'
EXP = '(?:[eE][-+]?[0-9]+)'
L12_NUM = ('[-+]?(?:' + D + '+' + EXP + '|' + D + '+\\.' + D + '*' + EXP + '?'
           '|\\.' + D + '+' + EXP + '?)')
L12_INF = '[-+]?\\.(?:inf|Inf|INF)'
L12_NAN = '\\.(?:nan|NaN|NAN)'
L12_NAN_SIGNED = '[-+]?\\.(?:nan|NaN|NAN)'     # tolerance T-NAN-SIGN
L12_BOOL = '(?:true|True|TRUE|false|False|FALSE)'


def oracle(*alts):
    return relang.fullmatch_lang('(?:' + '|'.join(alts) + ')', 0)


def float12_lower():
    return oracle(L12_NUM, L12_INF, L12_NAN)


def float12_upper():
    return oracle(L12_NUM, L12_INF, L12_NAN_SIGNED)


def bool12():
    return oracle(L12_BOOL)


# Python's float() on a str without surrounding blanks and underscores
# (trusted grammar of CPython's float literal parser, lower-case input)
PYFLOAT = ('[-+]?(?:(?:[0-9]+\\.?[0-9]*|\\.[0-9]+)(?:[eE][-+]?[0-9]+)?'
           '|[iI][nN][fF](?:[iI][nN][iI][tT][yY])?|[nN][aA][nN])')
# Python's int() on a str without surrounding blanks / underscores
PYINT = '[-+]?[0-9]+'


def plain_domain():
    """E-PLAIN: values of plain scalars -- empty, or neither starting nor
    ending with a blank or line break (YAML 1.2.2 7.3.3: plain scalars must
    not begin or end with white space; line folding never leaves a trailing
    break)"""
    return relang.fullmatch_lang(
        '(?:[^ \\t\\n\\r](?:[\\x00-\\U0002fffd]*[^ \\t\\n\\r])?)?', 0)


def decide_included(r1, r2, domain=None, timeout_s=20):
    t0 = time.time()
    # command-line back ends first: they honour their time limit
    v, w = relang.included(r1, r2, domain, timeout_s,
                           backends=('z3new', 'cvc5', 'z3cli'))
    info = dict(relang.last_info or {})
    return v, w, time.time() - t0, info.get('backend')


# ------------------------------------------------- native witness validation
_RESOLVE_CODE = r'''
import json, sys, yaml, yatiml
req = json.load(sys.stdin)
out = []
ld = yatiml.load_function().loader('')
dm = yatiml.dumps_function().dumper
class _R(dm):
    def __init__(self): pass
for side, text in req:
    obj = ld if side == 'loader' else _R()
    tag = obj.resolve(yaml.ScalarNode, text, (True, False))
    rec = {'tag': tag}
    if side == 'loader':
        node = yaml.ScalarNode(tag, text)
        try:
            v = ld.construct_object(node, deep=True)
            rec['value'] = repr(v); rec['type'] = type(v).__name__
        except Exception as ex:
            rec['exception'] = type(ex).__name__ + ': ' + str(ex)[:200]
    out.append(rec)
print(json.dumps(out))
'''


def native_resolve(repo, reqs):
    """[(side, text)] -> [{'tag':..., 'value'|'exception':...}] using the real
    Loader instance / Dumper class and PyYAML's real resolve + constructors"""
    env = dict(os.environ)
    env['PYTHONPATH'] = repo
    p = subprocess.run(['/venv/bin/python', '-c', _RESOLVE_CODE], env=env,
                       input=json.dumps(reqs), stdout=subprocess.PIPE,
                       stderr=subprocess.PIPE, text=True, timeout=120)
    if p.returncode != 0:
        raise RuntimeError(p.stderr[-800:])
    return json.loads(p.stdout)
