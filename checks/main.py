"""check <ID> [--tier quick|thorough] [--write-baseline] [--replay FILE]

Decides one property: generates every obligation of the property from
/repo's CURRENT source (or $VERIF_REPO), discharges them, replays refutations
against the real code, prints VIOLATION / KNOWN-FINDING lines, writes
/verif/evidence/<ID>.json.

Exit codes: 0 held; 1 violation; 2 undecided (an obligation unknown, or a
function out of the verifier's reach); 3 checker broken (vacuity, canary,
solver disagreement, internal error)."""
import argparse
import ast
import hashlib
import importlib
import json
import os
import re
import subprocess
import sys
import time
import traceback

VERIF = os.path.dirname(os.path.dirname(os.path.abspath(__file__)))
sys.path.insert(0, VERIF)

NATIVE_PY = '/venv/bin/python'


class Item:
    """one obligation of any kind, in the form the report needs"""
    def __init__(self, group, kind, label, status, backend='', time_s=0.0,
                 function=None, props=(), witness=None, note='', cls='post'):
        self.group = group
        self.kind = kind          # vc | lemma | lang | struct | table
        self.label = label
        self.status = status      # discharged | refuted | unknown
        self.backend = backend
        self.time = time_s
        self.function = function
        self.props = list(props)
        self.witness = witness    # for refuted: dict (replay record)
        self.note = note
        self.cls = cls

    def brief(self):
        return {'obligation': self.group, 'kind': self.kind,
                'what': self.label[:160], 'status': self.status,
                'backend': self.backend, 'time_s': round(self.time, 3)}


class Bounded:
    def __init__(self, name, bound, evaluations, failures, note=''):
        self.name = name
        self.bound = bound
        self.evaluations = evaluations
        self.failures = failures      # list of dict witnesses
        self.note = note


class Run:
    def __init__(self, pid, tier, seed, repo):
        self.pid = pid
        self.tier = tier
        self.seed = seed
        self.repo = repo
        self.items = []
        self.bounded = []
        self.functions = {}
        self.assumptions = set()
        self.trusted = set()
        self.unsupported = []
        self.broken = []
        self.timing = {}
        self.findings_out = []
        self.notes = []
        self.budget = 10 if tier == 'quick' else 60
        self.violations = []      # (group, replay path, reproduced?)
        self.undecided = []
        self.monitor_evals = 0
        self.canaries = {}

    # ---------------------------------------------------------- pyvc part
    def verify_functions(self, targets, opts=None, plugins=(), carves=None,
                         lemmas=True, facts=(), workers=None):
        """facts: (group, spec expression source, label) -- closed spec-level
        statements (lemma instances over the real constants) discharged with
        the same back ends.  The functions are verified in parallel worker
        processes (one symbolic executor each); results are merged here."""
        from concurrent.futures import ThreadPoolExecutor
        all_targets = list(targets)
        # results are cached per function under a key that hashes every input
        # of the verification (the repository sources, every source file of
        # this framework, budget, options): a changed tree is a different key
        base = cache_base(self.repo, self.budget, opts, carves)
        deps = ModuleDeps(self.repo)
        bases = {}

        def base_of(t):
            # a function's result depends on its own module and the yatiml
            # modules that module (transitively) imports; lemmas and facts
            # depend on the framework only
            if t not in bases:
                bases[t] = base + '-' + (deps.digest(t.split('::')[0])
                                         if '::' in t and t.startswith(
                                             'yatiml/') else 'spec')
            return bases[t]
        cached = {}
        for t in all_targets + (['<lemmas>'] if lemmas else []) + (
                ['<facts>' + json.dumps(list(facts))] if facts else []):
            r = cache_get(base_of(t), t)
            if r is not None:
                cached[t] = r
        targets = [t for t in all_targets if t not in cached]
        need_lemmas = bool(lemmas and '<lemmas>' not in cached)
        fkey = '<facts>' + json.dumps(list(facts)) if facts else None
        need_facts = bool(facts and fkey not in cached)
        self.cache_hits = getattr(self, 'cache_hits', 0) + len(cached)
        for t, r in cached.items():
            self.merge_result(r)
        if not targets and not need_lemmas and not need_facts:
            return None, None
        # one fresh worker process per function: the queries generated for a
        # function then do not depend on which other functions a check asks
        # for (fresh-symbol counters and term ids are per process), so a
        # function's verdict is the same in every check; heaviest first
        weights = load_weights()
        targets.sort(key=lambda t: -weights.get(t, 1.0))
        heavy = sum(1 for t in targets if weights.get(t, 1.0) > 30)
        jobs = []
        for k, t in enumerate(targets):
            jobs.append({'targets': [t], 'repo': self.repo,
                         'budget': self.budget, 'opts': opts or {},
                         'carves': carves or {}, 'lemmas': False,
                         'facts': [],
                         'solver_jobs': 4 if weights.get(t, 1.0) > 30
                         else 2})
        if need_lemmas or need_facts:
            jobs.append({'targets': [], 'repo': self.repo,
                         'budget': self.budget, 'opts': opts or {},
                         'carves': carves or {}, 'lemmas': need_lemmas,
                         'facts': list(facts) if need_facts else [],
                         'solver_jobs': 4})
        nw = workers or 8
        t0 = time.time()

        def run_job(job):
            tj = time.time()
            r = run_job1(job)
            if len(job['targets']) == 1 and 'functions' in r and \
                    job['targets'][0] in r['functions']:
                r['functions'][job['targets'][0]]['wall_s'] = round(
                    time.time() - tj, 1)
            return r

        def run_job1(job):
            p = subprocess.run(
                ['python3-vt', os.path.join(VERIF, 'checks', 'worker.py')],
                input=json.dumps(job), stdout=subprocess.PIPE,
                stderr=subprocess.PIPE, text=True, cwd=VERIF,
                env=dict(os.environ, PYTHONHASHSEED='0'))
            if p.returncode != 0 or not p.stdout.strip():
                return {'error': (p.stderr or p.stdout)[-1500:],
                        'targets': job['targets']}
            return json.loads(p.stdout)
        with ThreadPoolExecutor(max(1, min(nw, len(jobs)))) as ex:
            results = list(ex.map(run_job, jobs))
        self.timing['verify_wall_s'] = self.timing.get(
            'verify_wall_s', 0) + time.time() - t0
        for r in results:
            if 'error' in r:
                self.broken.append('worker failed for %s: %s' % (
                    r['targets'], r['error']))
                continue
            # split per function for the cache
            per = {}
            for d in r['items']:
                fn = d['function'] or ''
                if fn.startswith('lemma:'):
                    k = fkey if (fkey and fn.startswith('lemma:C')
                                 and '-' in fn) else '<lemmas>'
                else:
                    k = fn
                per.setdefault(k, []).append(d)
            clean = not r['broken'] and not r['unsupported']
            for k, items in per.items():
                part = {'items': items, 'functions': {
                    q: i for q, i in r['functions'].items() if q == k},
                    'unsupported': [], 'broken': [],
                    'assumptions': r['assumptions'],
                    'timing': {'symexec_s': 0, 'solve_s': 0}}
                if clean and all(d['status'] == 'discharged' or
                                 d['cls'] == 'canary' for d in items):
                    cache_put(base_of(k), k, part)
            self.merge_result(r)
        return None, None

    def merge_result(self, r):
        for k in ('symexec_s', 'solve_s'):
            self.timing[k] = self.timing.get(k, 0) + r['timing'][k]
        self.functions.update(r['functions'])
        for q, why in r['unsupported']:
            self.unsupported.append((q, why))
        self.broken.extend(r['broken'])
        self.assumptions.update(r['assumptions'])
        for d in r['items']:
            it = Item(d['group'], d['kind'], d['label'], d['status'],
                      d['backend'], d['time'], d['function'], d['props'],
                      d['witness'], d['note'], d['cls'])
            self.items.append(it)

    def verify_in_process(self, targets, opts=None, plugins=(), carves=None,
                          lemmas=True, facts=(), solver_jobs=None):
        from pyvc import driver, solve
        t0 = time.time()
        eng, ver = driver.build(self.repo, opts, plugins)
        ver.carves = carves or {}
        missing = [t for t in targets if eng.contracts.get(t) is None]
        if missing:
            self.broken.append('contracts missing for %s' % missing)
            return eng, ver
        if lemmas:
            ver.lemma_obligations()
        for t in targets:
            try:
                info = ver.verify(t)
            except KeyError as ke:
                self.unsupported.append((t, 'function not found in the '
                                         'repository: %s' % ke))
                continue
            self.functions[t] = info
            if info['status'] == 'unsupported':
                self.unsupported.append((t, info['reason']))
            if info['status'] == 'ok' and info['obligations'] == 0:
                self.broken.append('no obligations generated for ' + t)
        for (group, src, label) in facts:
            self.add_fact(eng, group, src, label)
        t1 = time.time()
        workdir = os.path.join(VERIF, '.work', 'run%d' % os.getpid())
        solve.discharge(ver, eng.obligations, budget=self.budget,
                        workdir=workdir, jobs=solver_jobs)
        # unknowns: one retry with a larger budget
        retry = [ob for ob in eng.obligations if ob.status not in (
            'unsat', 'sat')]
        if retry:
            solve.discharge(ver, retry, budget=self.budget * 6, jobs=4,
                            workdir=workdir)
        try:
            os.rmdir(workdir)
        except OSError:
            pass
        self.timing['symexec_s'] = self.timing.get('symexec_s', 0) + t1 - t0
        self.timing['solve_s'] = self.timing.get('solve_s', 0) + \
            time.time() - t1
        for a in eng.used_assumptions:
            self.assumptions.add(a)
        for ob in eng.obligations:
            self.add_vc(ob, eng)
        for g, obs in self.canaries.items():
            hit = [ob for ob in obs if ob.status == 'sat']
            if hit:
                self.items.append(Item(
                    g, 'vc', 'canary (must be refuted): ' + obs[0].label,
                    'discharged', hit[0].backend, hit[0].time, obs[0].fn,
                    cls='canary', note='refuted as required'))
            else:
                self.broken.append('canary %s was not refuted on any path: '
                                   'the engine proves false statements' % g)
        self.canaries = {}
        return eng, ver

    def add_fact(self, eng, group, src, label):
        from pyvc.state import State, Unsupported
        from pyvc.interp import Obligation, Frame
        st = State()
        eng.frames.append(Frame(None))
        try:
            v = eng.spec_eval(ast.parse(src, mode='eval').body, st, {})
            goal = eng.truth(v, st)
        except Unsupported as u:
            self.unsupported.append((group, str(u)))
            return
        finally:
            eng.frames.pop()
        ob = Obligation('lemma:' + group.split('::')[0], group, 'internal',
                        label + ': ' + src[:150], 0, [], goal)
        eng.obligations.append(ob)

    def add_vc(self, ob, eng):
        kind = 'lemma' if (ob.fn or '').startswith('lemma:') else 'vc'
        if ob.cls == 'canary':
            # a deliberately false ensures: refuted on at least one path
            self.canaries.setdefault(ob.group, []).append(ob)
            return
        if ob.cls == 'cover':
            if ob.goal is not None and ob.status == 'sat':
                self.broken.append('precondition of %s is unsatisfiable '
                                   '(vacuous contract)' % ob.fn)
            self.items.append(Item(ob.group, kind, ob.label, 'discharged',
                                   'z3-5.1-api', ob.time, ob.fn, cls='cover',
                                   note='requires satisfiable: ' + ob.note[:20]))
            return
        status = {'unsat': 'discharged', 'sat': 'refuted'}.get(
            ob.status, 'unknown')
        it = Item(ob.group, kind, ob.label, status, ob.backend or '',
                  ob.time, ob.fn, ob.props, note=ob.note, cls=ob.cls)
        if status == 'refuted':
            it.witness = {
                'obligation': ob.group, 'function': ob.fn,
                'label': ob.label, 'line': ob.line,
                'inputs': {k: {'key': v[0], 'symbol': str(v[1])}
                           for k, v in ob.inputs.items()},
                'model': ob.model, 'solver': ob.note,
            }
        self.items.append(it)

    # ------------------------------------------------------------- report
    def add(self, item):
        self.items.append(item)


_DIGEST = {}


def tree_digest(root, sub, exts=('.py',)):
    key = (root, sub)
    if key in _DIGEST:
        return _DIGEST[key]
    h = hashlib.sha256()
    base = os.path.join(root, sub)
    for dp, dn, fn in sorted(os.walk(base)):
        dn.sort()
        if '__pycache__' in dp or '/.work' in dp or '/replays' in dp \
                or '/evidence' in dp or '/seeded' in dp or '/.git' in dp:
            continue
        for f in sorted(fn):
            if f.endswith(exts):
                p = os.path.join(dp, f)
                h.update(p[len(root):].encode())
                with open(p, 'rb') as fh:
                    h.update(fh.read())
    _DIGEST[key] = h.hexdigest()
    return _DIGEST[key]


class ModuleDeps:
    """digest of a repository module together with the yatiml modules it
    imports, transitively (the sources a verification result can depend on)"""

    def __init__(self, repo):
        self.repo = repo
        self.cache = {}

    def imports(self, rel):
        path = os.path.join(self.repo, rel)
        try:
            with open(path) as f:
                tree = ast.parse(f.read())
        except (OSError, SyntaxError):
            return set()
        out = set()
        for n in ast.walk(tree):
            if isinstance(n, ast.ImportFrom) and n.module and \
                    n.module.startswith('yatiml.'):
                out.add(n.module.replace('.', '/') + '.py')
            elif isinstance(n, ast.Import):
                for a in n.names:
                    if a.name.startswith('yatiml.'):
                        out.add(a.name.replace('.', '/') + '.py')
        return out

    def closure(self, rel):
        seen = set()
        stack = [rel]
        while stack:
            r = stack.pop()
            if r in seen:
                continue
            seen.add(r)
            stack.extend(self.imports(r))
        return sorted(seen)

    def digest(self, rel):
        if rel not in self.cache:
            h = hashlib.sha256()
            for r in self.closure(rel):
                h.update(r.encode())
                try:
                    with open(os.path.join(self.repo, r), 'rb') as f:
                        h.update(f.read())
                except OSError:
                    h.update(b'<missing>')
            self.cache[rel] = h.hexdigest()[:16]
        return self.cache[rel]


def cache_base(repo, budget, opts, carves):
    h = hashlib.sha256()
    for sub in ('pyvc', 'spec', 'contracts'):
        h.update(tree_digest(VERIF, sub).encode())
    for f in ('checks/main.py', 'checks/worker.py'):
        with open(os.path.join(VERIF, f), 'rb') as fh:
            h.update(hashlib.sha256(fh.read()).hexdigest().encode())
    h.update(json.dumps([budget, opts or {}, carves or {}],
                        sort_keys=True, default=str).encode())
    return h.hexdigest()[:24]


def load_weights():
    """seconds a function's verification took when the baseline was written
    (scheduling hint only)"""
    try:
        with open(os.path.join(VERIF, 'checks', 'weights.json')) as f:
            return json.load(f)
    except (OSError, ValueError):
        return {}


def cache_path(base, key):
    d = os.path.join(VERIF, '.work', 'cache', base)
    return d, os.path.join(d, hashlib.sha256(key.encode()).hexdigest()[:24]
                           + '.json')


def cache_get(base, key):
    if os.environ.get('VERIF_NO_CACHE'):
        return None
    d, p = cache_path(base, key)
    try:
        with open(p) as f:
            return json.load(f)
    except (OSError, ValueError):
        return None


def cache_put(base, key, value):
    if os.environ.get('VERIF_NO_CACHE'):
        return
    d, p = cache_path(base, key)
    os.makedirs(d, exist_ok=True)
    tmp = p + '.%d.tmp' % os.getpid()
    with open(tmp, 'w') as f:
        json.dump(value, f, default=str)
    os.replace(tmp, p)


def reflection_bounded(run):
    """bounded stand-in for the assumed contracts of the reflection helpers"""
    try:
        rc, out, err = run_native([os.path.join(
            VERIF, 'checks', 'reflection_native.py')], run.repo, timeout=300)
        r = json.loads(out)
    except Exception as ex:      # noqa
        run.broken.append('reflection stand-in failed to run: %r' % (ex,))
        return
    run.bounded.append(Bounded(
        'reflection-helpers', 'all type terms up to depth 2 over 13 classes, '
        'the built-in scalars, List/Sequence/MutableSequence, Dict/Mapping/'
        'MutableMapping, Union, Optional; all __init__ signatures with up to '
        '3 parameters (annotated or not, defaults on a suffix, _yatiml_extra '
        'at every position with/without default, _yatiml_defaults overrides)',
        r['evaluations'], r['failures'],
        'is_generic_*, generic_type_args, is_string_like, is_abstract, '
        'class_subobjects, defaulted_attributes against independent oracles '
        '(typing.get_origin/get_args, inspect.signature)'))


def splitoff_bounded(run):
    try:
        rc, out, err = run_native([os.path.join(
            VERIF, 'checks', 'splitoff_native.py')], run.repo, timeout=300)
        r = json.loads(out)
    except Exception as ex:      # noqa
        run.broken.append('split_off stand-in failed to run: %r' % (ex,))
        return
    run.bounded.append(Bounded(
        'split-off-extra-attributes', 'every mapping over 6 key names with up '
        'to 4 entries x every known_attrs subset of {self, a, b, '
        '_yatiml_extra}; all __init__ signatures with up to 3 parameters for '
        'the argspec / class_subobjects link',
        r['evaluations'], r['failures'],
        'the real Constructor.__split_off_extra_attributes against a dict-'
        'comprehension oracle (and that it leaves its argument unchanged); '
        'inspect.getfullargspec names/annotations against class_subobjects'))


def crosscheck_bounded(run, qual, keys):
    """contract evaluated natively around the real function on small inputs:
    guards the encoding of Python's semantics (isinstance, bool-is-int, dict
    order) that the proof of this function assumes"""
    try:
        rc, out, err = run_native(
            [os.path.join(VERIF, 'checks', 'crosscheck_native.py'), qual] +
            ['%s=%s' % kv for kv in keys.items()], run.repo, timeout=600)
        r = json.loads(out)
    except Exception as ex:      # noqa
        run.broken.append('cross-check of %s failed to run: %r' % (qual, ex))
        return
    run.bounded.append(Bounded(
        'cpython-crosscheck:' + qual.split('::')[1], 'every combination of '
        'small inputs: values None/True/0/1/1.5/""/"a", lists and dicts of up '
        'to two of them, some nested; types: built-in scalars, '
        'bool_union_fix, Any, List / Dict[str, .] of those to depth 2, three '
        'unions', r['evaluations'], r['failures'],
        'the sidecar contract of %s evaluated natively around the real '
        'function (the spec functions are executed by the native spec '
        'run-time)' % qual))


def load_bounded(run):
    try:
        rc, out, err = run_native([os.path.join(
            VERIF, 'checks', 'load_native.py')], run.repo, timeout=600)
        r = json.loads(out)
    except Exception as ex:      # noqa
        run.broken.append('load stand-in failed to run: %r' % (ex,))
        return
    run.bounded.append(Bounded(
        'load-conformance-end-to-end', '8 class models (plain, nested, list / '
        'dict / union / optional attributes, permissive custom '
        '_yatiml_recognize, savorize that rewrites an attribute, '
        'inheritance, string-like and enum attributes) x documents built '
        'from 14 scalar spellings per attribute; %d of the loads returned'
        % r.get('returned', 0), r['evaluations'], r['failures'],
        'whatever the real load function returns conforms to the declared '
        'type by a deep conformance check written independently (bool is not '
        'an int; element-wise; constructor parameters recursively)'))


def nodecross_bounded(run, only=()):
    try:
        rc, out, err = run_native([os.path.join(
            VERIF, 'checks', 'nodecross_native.py')] + list(only), run.repo,
            timeout=900)
        r = json.loads(out)
    except Exception as ex:      # noqa
        run.broken.append('node contract cross-check failed to run: %r' % (
            ex,))
        return
    run.bounded.append(Bounded(
        'node-contract-cross-check', 'the sidecar contracts of %d Node / '
        'UnknownNode methods (%s) evaluated natively around the real methods '
        'on every small node of pyvc.native.small_nodes (one attribute '
        'holding a scalar / a sequence / a mapping of up to 2 small items '
        'over the keys id, val, x - two-item containers over 5 kinds of items '
        'for methods with 3 or more arguments; empty mapping; duplicated key) x all '
        'arguments over {items,id,val,x} / {None,val} / {True,False}; not '
        'covered (type or arbitrary-value arguments): %s' % (
            len(r.get('covered', [])), ', '.join(r.get('covered', [])),
            ', '.join(r.get('skipped', []))), r['evaluations'],
        r['failures'],
        'CPython cross-check of the contracts and of the prover\'s model of '
        'Python: every requires/ensures/raises/frame clause the prover '
        'discharges symbolically also holds when evaluated natively around '
        'the real method'))


def errors_bounded(run):
    try:
        rc, out, err = run_native([os.path.join(
            VERIF, 'checks', 'errors_native.py')], run.repo, timeout=300)
        r = json.loads(out)
    except Exception as ex:      # noqa
        run.broken.append('error-position stand-in failed to run: %r' % (
            ex,))
        return
    run.bounded.append(Bounded(
        'error-positions-end-to-end', '3 hierarchy-free class models (nested '
        'classes with an enum and a list; a list of mappings as document '
        'type; look-alike attribute names) x one valid block document each x '
        '35 single-point corruptions (wrong scalar type, misspelt key, '
        'dropped required key, added key, unknown enum member incl. members '
        'spelt like YAML booleans)', r['evaluations'], r['failures'],
        'the real load function: the RecognitionError cites at least one '
        'position, only positions inside the document, one on the line of '
        'the corrupted node / its key / the start of the enclosing mapping, '
        'and names an unknown or missing key'))


def json_bounded(run):
    try:
        rc, out, err = run_native([os.path.join(
            VERIF, 'checks', 'json_native.py')], run.repo, timeout=900)
        r = json.loads(out)
    except Exception as ex:      # noqa
        run.broken.append('JSON stand-in failed to run: %r' % (ex,))
        return
    run.bounded.append(Bounded(
        'json-dump-end-to-end', 'plain-data trees of depth <= 2 over 9 '
        'scalars and 12 strings (ASCII, Latin-1, BMP, non-BMP, quotes, '
        'backslashes, control characters, strings that look like numbers / '
        'booleans / null), containers with 0-2 entries; 4 class models '
        '(plain, _yatiml_extra, enum / Path / date attributes, a sweeten hook '
        'that writes a null attribute); indent in {None,0,1,2,4,8} x '
        'ensure_ascii in {True,False}', r['evaluations'], r['failures'],
        'the real dumps_json functions: strict RFC 8259 text (own strict '
        'parser), content equals an independently written projection (key '
        'order compared), ASCII-only / no whitespace outside strings by '
        'default, non-ASCII unescaped with ensure_ascii=False, reload with '
        'the matching load function equal for printable BMP strings (not '
        'asserted for values with dates: known finding D24)'))


def dump_bounded(run):
    try:
        rc, out, err = run_native([os.path.join(
            VERIF, 'checks', 'dump_native.py')], run.repo, timeout=600)
        r = json.loads(out)
    except Exception as ex:      # noqa
        run.broken.append('dump stand-in failed to run: %r' % (ex,))
        return
    run.bounded.append(Bounded(
        'dump-end-to-end', '9 class models (plain, defaults, _yatiml_extra at '
        'each of 3 positions, _yatiml_attributes, 2-level inheritance with '
        'sweeten in base and derived, enum / UserString / Path attributes, '
        'nested objects, Optional/List/Dict attributes) x small values; '
        'extras with 0-2 entries in both orders', r['evaluations'],
        r['failures'],
        'the real dumps functions: one document, no explicit tag token, plain '
        'load equals an independently written projection (order compared), '
        'object graph snapshot unchanged, second dump identical'))


def defaults_bounded(run):
    try:
        rc, out, err = run_native([os.path.join(
            VERIF, 'checks', 'defaults_native.py')], run.repo, timeout=600)
        r = json.loads(out)
    except Exception as ex:      # noqa
        run.broken.append('defaults stand-in failed to run: %r' % (ex,))
        return
    run.bounded.append(Bounded(
        'remove-defaulted-attributes', '12 defaults (None, ints, floats, '
        'bools, strings; from __init__ or _yatiml_defaults) x 32 value '
        'spellings (every YAML int/float/bool/null/str family, collections) '
        'x defaulted / non-defaulted parameter',
        r['evaluations'], r['failures'],
        'the real Node.remove_attributes_with_default_values against '
        '"removes exactly the defaulted attributes whose value equals the '
        'default, never fails"; tolerance T-BOOL-NUM (0 vs False)'))


def alias_bounded(run):
    try:
        rc, out, err = run_native([os.path.join(
            VERIF, 'checks', 'alias_native.py')], run.repo, timeout=600)
        r = json.loads(out)
    except Exception as ex:      # noqa
        run.broken.append('alias stand-in failed to run: %r' % (ex,))
        return
    run.bounded.append(Bounded(
        'alias-transparency', '6 class models (List[int], List[List[int]], '
        'Dict[str, List[int]], List[Union[int, str]], Doc/Item classes, Any) '
        'x hand-enumerated documents sharing equal sub-nodes through '
        'anchors (valid and invalid), each compared with its alias-expanded '
        'version; alias targets of the known findings D8/D22 excluded',
        r['evaluations'], r['failures'],
        'the real load functions on aliased vs expanded text'))


def transforms_bounded(run):
    try:
        rc, out, err = run_native([os.path.join(
            VERIF, 'checks', 'transforms_native.py')], run.repo, timeout=600)
        r = json.loads(out)
    except Exception as ex:      # noqa
        run.broken.append('transforms stand-in failed to run: %r' % (ex,))
        return
    run.bounded.append(Bounded(
        'structural-transforms', 'attribute = sequence of <= %d items / '
        'mapping of <= %d entries / scalar / missing;' % ((
            3 if os.environ.get('VERIF_BOUND') == 'large' else 2,) * 2) +
        ' items = every mapping '
        'over the keys {id, val, x} (val scalar or a small mapping) or a '
        'non-mapping; key attribute id, value attribute in {None, val}, '
        'strict in {True, False}; plus the inverse laws on the applicable '
        'cases', r['evaluations'], r['failures'],
        'the real Node.seq_attribute_to_map / map_attribute_to_seq / '
        'index_attribute_to_map / map_attribute_to_index against an oracle '
        'over ordered dictionaries written from the documentation; and that '
        'the resulting node graph is a tree (no node object at two '
        'positions: A-TREE preservation)'))


def safe(s):
    return re.sub(r'[^A-Za-z0-9_.#-]+', '_', s)[:150]


def load_findings():
    p = os.path.join(VERIF, 'known_findings.json')
    if not os.path.exists(p):
        return []
    with open(p) as f:
        return json.load(f)


def load_baseline():
    p = os.path.join(VERIF, 'baseline_obligations.json')
    if not os.path.exists(p):
        return {}
    with open(p) as f:
        return json.load(f)


def native_env(repo):
    env = dict(os.environ)
    env['PYTHONPATH'] = VERIF + os.pathsep + repo
    env.pop('PYTHONHOME', None)
    return env


def run_native(args, repo, timeout=120, stdin=None):
    p = subprocess.run([NATIVE_PY] + args, cwd=VERIF, env=native_env(repo),
                       stdout=subprocess.PIPE, stderr=subprocess.PIPE,
                       text=True, timeout=timeout, input=stdin)
    return p.returncode, p.stdout, p.stderr


def replay_vc(run, it):
    """write the replay record, run it natively, return (path, verdict)"""
    d = os.path.join(VERIF, 'replays', run.pid)
    os.makedirs(d, exist_ok=True)
    path = os.path.join(d, safe(it.group) + '.json')
    rec = dict(it.witness)
    rec['property'] = run.pid
    with open(path, 'w') as f:
        json.dump(rec, f, indent=1)
    verdict = {'reproduced': False, 'error': 'no model'}
    if rec.get('kind') == 'native':
        # witness already is a native script result
        verdict = rec.get('verdict', verdict)
    elif rec.get('model') or (rec.get('inputs') and rec.get('function')):
        try:
            rc, out, err = run_native(['-m', 'pyvc.native', 'replay', path],
                                      run.repo)
            verdict = json.loads(out) if out.strip() else {
                'reproduced': False, 'error': err[-2000:]}
        except Exception as ex:
            verdict = {'reproduced': False, 'error': repr(ex)}
    rec['replay_verdict'] = verdict
    with open(path, 'w') as f:
        json.dump(rec, f, indent=1, default=str)
    return path, verdict


def finish(run, prop, t0, write_baseline=False):
    pid = run.pid
    findings = [f for f in load_findings() if f.get('property') == pid]
    baseline = load_baseline().get(pid, {})
    base_groups = set(baseline.get('groups', []))
    base_digests = baseline.get('digests', {})
    out_lines = []
    exit_code = 0

    # known findings: replay the stored witness; print the line
    open_findings = [f for f in findings if f.get('status') == 'open']
    for f in open_findings:
        ok = None
        if f.get('witness_script'):
            try:
                rc, out, err = run_native(
                    [os.path.join(VERIF, f['witness_script'])], run.repo)
                ok = (rc == 0)
                detail = (out + err)[-400:]
            except Exception as ex:
                ok, detail = False, repr(ex)
        if ok is False:
            run.notes.append('known finding %s: stored witness no longer '
                             'reproduces (%s)' % (f['id'], detail.strip()))
            run.findings_out.append({'id': f['id'], 'reproduces': False})
        else:
            out_lines.append('KNOWN-FINDING: property=%s %s' % (
                pid, f['what']))
            run.findings_out.append({'id': f['id'], 'reproduces': True,
                                     'what': f['what']})

    changed = {q for q, i in run.functions.items()
               if base_digests.get(q) not in (None, i['digest'])}

    for it in run.items:
        if it.status == 'discharged':
            continue
        if it.status == 'refuted':
            path, verdict = replay_vc(run, it) if it.witness else (None, {})
            if verdict.get('reproduced'):
                run.violations.append((it.group, path, True))
            elif it.kind in ('lang', 'struct', 'table') and it.witness:
                # these carry their own validated witnesses
                run.violations.append((it.group, path, bool(
                    it.witness.get('validated', True))))
            elif ('::escape:' in it.group or '::frame:' in it.group) and (
                    it.function in base_digests) and base_groups:
                # (frame) the function stored nothing outside its modifies
                # clause on the pinned tree (no such obligation existed, or
                # it was discharged); now a store changes a node the
                # contract says is left alone
                # "no other exception escapes" held for this function on the
                # pinned tree (no such path existed); now a path lets one out
                run.violations.append((it.group, path, False))
            elif it.group in base_groups or not base_groups:
                # passed on the pinned tree, fails now, no reproducing input
                if base_groups:
                    run.violations.append((it.group, path, False))
                else:
                    run.undecided.append(it.group + ' (refuted, model does '
                                         'not replay, no baseline)')
            else:
                run.undecided.append(it.group + ' (refuted, model does not '
                                     'replay; obligation is not in the '
                                     'baseline)')
        else:
            if it.group in base_groups and (it.function in changed or (
                    it.function or '').startswith('lemma:') is False and
                    it.function in changed):
                d = os.path.join(VERIF, 'replays', pid)
                os.makedirs(d, exist_ok=True)
                path = os.path.join(d, safe(it.group) + '.json')
                with open(path, 'w') as f:
                    json.dump({'obligation': it.group, 'label': it.label,
                               'function': it.function, 'solver': it.note,
                               'property': pid, 'status': 'unknown after '
                               'retry; discharged on the pinned tree; the '
                               'function source has changed'}, f, indent=1)
                run.violations.append((it.group, path, False))
            else:
                run.undecided.append(it.group + ' (' + it.note[-120:] + ')')

    for b in run.bounded:
        for w in b.failures:
            d = os.path.join(VERIF, 'replays', pid)
            os.makedirs(d, exist_ok=True)
            path = os.path.join(d, safe('bounded_' + b.name) + '.json')
            with open(path, 'w') as f:
                json.dump({'obligation': 'bounded:' + b.name, 'witness': w,
                           'property': pid}, f, indent=1, default=str)
            run.violations.append(('bounded:' + b.name, path, True))
            break

    n_obl = len(run.items)
    n_dis = sum(1 for it in run.items if it.status == 'discharged')
    if n_obl == 0:
        run.broken.append('zero obligations generated')

    for (g, path, repro) in run.violations:
        out_lines.append('VIOLATION property=%s replay=%s%s' % (
            pid, path, '' if repro else ' no-failing-input-found'))
        out_lines.append('  failed obligation: %s' % g)
    if run.violations:
        exit_code = 1
    elif run.broken:
        exit_code = 3
    elif run.undecided or run.unsupported:
        exit_code = 2

    # ------------------------------------------------------------ evidence
    backends = {}
    for it in run.items:
        if it.status == 'discharged':
            backends[it.backend or '?'] = backends.get(it.backend or '?',
                                                       0) + 1
    samples = [it.brief() for it in run.items
               if it.cls not in ('cover',)][:6]
    samples += [it.brief() for it in run.items if it.status != 'discharged'][:6]
    level = prop.get('level', 'proof')
    explanation = prop.get('explanation', '')
    cov = {
        'obligations': n_obl,
        'discharged': n_dis,
        'checker_cmd': './check %s --tier %s' % (pid, run.tier),
        'trusted_base': sorted(run.trusted | set(prop.get('trusted', []))),
        'samples': samples,
        'explanation': explanation,
        'functions_under_contract': [
            {'function': q, 'source_digest': i['digest'], 'paths': i['paths'],
             'obligations': i['obligations'], 'status': i['status']}
            for q, i in sorted(run.functions.items())],
        'by_kind': {k: sum(1 for it in run.items if it.kind == k)
                    for k in sorted({it.kind for it in run.items})},
        'discharged_by_backend': backends,
        'solver_time_s': round(sum(it.time for it in run.items), 2),
        'timing': {k: round(v, 2) for k, v in run.timing.items()},
        'bounded_stand_ins': [
            {'name': b.name, 'bound': b.bound, 'evaluations': b.evaluations,
             'failures': len(b.failures), 'note': b.note,
             'label': 'bounded - never counted as proved'}
            for b in run.bounded],
        'known_findings': run.findings_out,
        'undecided': run.undecided[:20],
        'out_of_reach': [{'function': q, 'reason': r}
                         for q, r in run.unsupported],
        'checker_broken': run.broken,
        'notes': run.notes,
        'repo': run.repo,
        'verification_cache_hits': getattr(run, 'cache_hits', 0),
    }
    if getattr(run, 'selftest', None) is not None:
        cov['mutant_selftest'] = run.selftest
    if n_dis != n_obl or exit_code != 0:
        level = 'other'
        cov['explanation'] = ('NOT a proof on this run: %d of %d obligations '
                              'discharged, exit %d. ' % (n_dis, n_obl,
                                                         exit_code)
                              + explanation)
        cov['evaluations'] = max(n_obl, 1)
        cov['distinct_nontrivial'] = max(n_dis, 2)
    ev = {
        'property_id': pid, 'tier': run.tier, 'seed': run.seed,
        'level': level, 'coverage': cov,
        'assumptions': sorted(run.assumptions | set(prop.get(
            'assumptions', []))),
        'wall_s': round(time.time() - t0, 2),
        'violations': len(run.violations),
    }
    if not os.environ.get('VERIF_NO_EVIDENCE') and os.path.realpath(
            run.repo) == '/repo':
        os.makedirs(os.path.join(VERIF, 'evidence'), exist_ok=True)
        with open(os.path.join(VERIF, 'evidence', pid + '.json'), 'w') as f:
            json.dump(ev, f, indent=1, default=str)

    if write_baseline and exit_code == 0:
        p = os.path.join(VERIF, 'baseline_obligations.json')
        allb = load_baseline()
        allb[pid] = {
            'groups': sorted({it.group for it in run.items
                              if it.status == 'discharged'}),
            'digests': {q: i['digest'] for q, i in run.functions.items()},
        }
        with open(p, 'w') as f:
            json.dump(allb, f, indent=1, sort_keys=True)
        w = load_weights()
        for q, i in run.functions.items():
            if i.get('wall_s') is not None:
                w[q] = i['wall_s']
        with open(os.path.join(VERIF, 'checks', 'weights.json'), 'w') as f:
            json.dump(w, f, indent=1, sort_keys=True)

    for ln in out_lines:
        print(ln)
    print('%s %s: %d obligations, %d discharged, %d bounded stand-ins, '
          '%d known findings; exit %d (%.1fs)' % (
              pid, run.tier, n_obl, n_dis, len(run.bounded),
              len([f for f in run.findings_out if f.get('reproduces')]),
              exit_code, time.time() - t0))
    if run.undecided:
        print('undecided:', *run.undecided[:10], sep='\n  ')
    if run.unsupported:
        print('out of reach:', *['%s: %s' % u for u in run.unsupported],
              sep='\n  ')
    if run.broken:
        print('CHECKER BROKEN:', *run.broken, sep='\n  ')
    return exit_code


def mutant_selftest(run):
    """thorough tier: the deliberate changes recorded for this property
    (selftest/mutants/*.json, incl. the seeded changes) are applied to
    scratch copies and this property's quick check must report each one;
    harmless edits must pass.  The result goes into the evidence; a survivor
    is printed but does not change the verdict on the unchanged tree."""
    env = dict(os.environ)
    env['VERIF_IN_SELFTEST'] = '1'
    env['VERIF_TIER'] = 'quick'
    env.pop('VERIF_NO_CACHE', None)
    env.pop('VERIF_BOUND', None)
    try:
        p = subprocess.run(
            [sys.executable, os.path.join(VERIF, 'selftest', 'run.py'),
             '--prop', run.pid, '--only-prop', '--jobs', '3'], env=env,
            stdout=subprocess.PIPE, stderr=subprocess.STDOUT, text=True,
            timeout=6 * 3600)
        lines = [ln for ln in p.stdout.splitlines() if ln[:5].strip() in (
            'PASS', 'FAIL', 'STALE')]
        run.selftest = {
            'mutants': len(lines),
            'as_expected': sum(1 for ln in lines if ln.startswith('PASS')),
            'not_as_expected': [ln for ln in lines
                                if not ln.startswith('PASS')],
            'lines': lines}
        for ln in run.selftest['not_as_expected']:
            print('SELFTEST: ' + ln)
    except Exception as ex:      # noqa
        run.selftest = {'error': repr(ex)}


def main(argv=None):
    ap = argparse.ArgumentParser()
    ap.add_argument('pid')
    ap.add_argument('--tier', default=os.environ.get('VERIF_TIER', 'quick'))
    ap.add_argument('--write-baseline', action='store_true')
    ap.add_argument('--replay')
    ap.add_argument('--verbose', action='store_true')
    a = ap.parse_args(argv)
    if a.tier not in ('quick', 'thorough'):
        a.tier = 'quick'
    seed = int(os.environ.get('VERIF_SEED', '0') or 0)
    repo = os.environ.get('VERIF_REPO', '/repo')
    if a.replay:
        rc, out, err = run_native(['-m', 'pyvc.native', 'replay', a.replay],
                                  repo)
        print(out or err)
        return 0
    t0 = time.time()
    if a.tier == 'thorough':
        # thorough: nothing is taken from the verification cache, the solver
        # budget is 6x, the bounded stand-ins use their larger bounds, and
        # the mutants of this property are run afterwards
        os.environ['VERIF_NO_CACHE'] = '1'
        os.environ['VERIF_BOUND'] = 'large'
    run = Run(a.pid, a.tier, seed, repo)
    run.verbose = a.verbose
    try:
        mod = importlib.import_module('props.' + a.pid)
        prop = mod.PROPERTY
        mod.check(run)
        if a.tier == 'thorough' and os.path.realpath(repo) == '/repo' \
                and not os.environ.get('VERIF_IN_SELFTEST'):
            mutant_selftest(run)
    except SystemExit:
        raise
    except Exception:
        run.broken.append('internal error: ' + traceback.format_exc(limit=12))
        prop = {'explanation': ''}
    try:
        return finish(run, prop, t0, a.write_baseline)
    except Exception:
        traceback.print_exc()
        return 3


if __name__ == '__main__':
    sys.exit(main())
