"""BOUNDED stand-in (never counted as proved) for
Constructor.__split_off_extra_attributes, whose dict surgery (copy,
OrderedDict, del) is outside the verified subset, and for the link between
inspect.getfullargspec and class_subobjects that the contract of
Constructor.__call__ assumes (E-ARGSPEC).

Bound: every mapping over keys drawn from {a, b, c, _yatiml_extra, self, zz}
with up to 4 entries (values distinct ints) x every known_attrs list that is a
subset of {self, a, b, _yatiml_extra}; oracle written independently with dict
comprehensions.  Then, for all __init__ signatures with up to 3 parameters
(annotated or not, defaults on a suffix, _yatiml_extra anywhere): the names of
class_subobjects are exactly argspec.args minus self/_yatiml_extra, and a
parameter has an annotation in argspec.annotations exactly when
class_subobjects gives it a type other than Any, which is that annotation.
Prints a JSON record."""
import inspect
import itertools
import json
from collections import OrderedDict
from typing import Any

from yatiml.constructors import Constructor
from yatiml.introspection import class_subobjects

failures = []
evals = 0


def check(name, got, want, what):
    global evals
    evals += 1
    if got != want:
        failures.append({'helper': name, 'input': repr(what),
                         'got': repr(got), 'expected': repr(want)})


class K:
    def __init__(self) -> None:
        pass


def run_split():
    split = getattr(Constructor(K), '_Constructor__split_off_extra_attributes')
    keys = ['a', 'b', 'c', '_yatiml_extra', 'self', 'zz']
    known_pool = ['self', 'a', 'b', '_yatiml_extra']
    for n in range(0, 5):
        for ks in itertools.permutations(keys, n):
            mapping = OrderedDict((k, i) for i, k in enumerate(ks))
            for r in range(0, len(known_pool) + 1):
                for known in itertools.combinations(known_pool, r):
                    before = OrderedDict(mapping)
                    got = split(mapping, list(known))
                    main = OrderedDict(
                        (k, v) for k, v in before.items()
                        if k in known and k != '_yatiml_extra')
                    extra = OrderedDict(
                        (k, v) for k, v in before.items()
                        if not (k in known and k != '_yatiml_extra'))
                    main['_yatiml_extra'] = extra
                    check('split_off', (list(got.items())[:-1],
                                        list(got['_yatiml_extra'].items())),
                          (list(main.items())[:-1], list(extra.items())),
                          (ks, known))
                    # the argument is not modified
                    check('split_off frame', list(mapping.items()),
                          list(before.items()), (ks, known))


def signatures():
    names = ['a', 'b', 'c']
    for n in range(0, 4):
        ps = names[:n]
        for ann in itertools.product([False, True], repeat=n):
            for ndef in range(0, n + 1):
                for xpos in [None] + list(range(0, n + 1)):
                    params = [(p, ann[i], i >= n - ndef)
                              for i, p in enumerate(ps)]
                    if xpos is not None:
                        params.insert(xpos, ('_yatiml_extra', False, False))
                    seen_def = False
                    ok = True
                    for (_, _, d) in params:
                        if d:
                            seen_def = True
                        elif seen_def:
                            ok = False
                    if ok:
                        yield params


def run_argspec():
    for params in signatures():
        parts = ['self']
        for (p, a, d) in params:
            s = p + (': int' if a else '') + (' = 7' if d else '')
            parts.append(s)
        src = 'class Q:\n    def __init__(%s) -> None:\n        pass\n' % (
            ', '.join(parts))
        ns = {}
        exec(src, ns)
        Q = ns['Q']
        spec = inspect.getfullargspec(Q.__init__)
        subs = list(class_subobjects(Q))
        check('argspec names', [nm for nm, _, _ in subs],
              [a for a in spec.args if a not in ('self', '_yatiml_extra')],
              src)
        check('argspec self', spec.args[0], 'self', src)
        for nm, t, req in subs:
            check('argspec annotation', t,
                  spec.annotations.get(nm, Any), (src, nm))


def main():
    run_split()
    run_argspec()
    print(json.dumps({'evaluations': evals, 'failures': failures[:5],
                      'n_failures': len(failures)}))


if __name__ == '__main__':
    main()
