"""BOUNDED stand-in for C18 (anchors and aliases are transparent), labelled
bounded and never counted as proved.  The deductive model of this framework
treats node graphs as trees (assumption A-TREE), so aliasing is outside the
reach of the contracts; this harness compares, with the REAL load functions,
every document of a small enumerated family that uses anchors/aliases with its
alias-expanded version.

Bound: 6 class models x documents built from the templates below with every
choice of which equal sub-nodes are shared (up to 3 references per anchor),
valid and invalid variants.  Input classes of the known findings are listed
separately (--known prints whether each still reproduces):
  D8  alias target recognised as an enum / string-like / Path scalar
  D9  self-referential alias (RecursionError)
  D22 one anchored node used at positions of different declared types
Prints a JSON record."""
import copy
import enum
import json
import sys
from pathlib import Path
from typing import Any, Dict, List, Optional, Union

import yaml
import yatiml


class Item:
    def __init__(self, a: int, b: str = 'x') -> None:
        self.a = a
        self.b = b

    def __eq__(self, o: object) -> bool:
        return type(o) is type(self) and vars(o) == vars(self)


class Doc:
    def __init__(self, first: Item, items: List[Item],
                 extra: Optional[Dict[str, int]] = None) -> None:
        self.first = first
        self.items = items
        self.extra = extra

    def __eq__(self, o: object) -> bool:
        return type(o) is type(self) and vars(o) == vars(self)


class Color(enum.Enum):
    red = 1
    green = 2


class Pal:
    def __init__(self, a: Color, b: Color) -> None:
        self.a = a
        self.b = b

    def __eq__(self, o: object) -> bool:
        return type(o) is type(self) and vars(o) == vars(self)


class Mixed:
    def __init__(self, p: Item, q: Any) -> None:
        self.p = p
        self.q = q

    def __eq__(self, o: object) -> bool:
        return type(o) is type(self) and vars(o) == vars(self)


def expand(node, seen=None):
    """copy of the node graph with every shared node duplicated"""
    if isinstance(node, yaml.ScalarNode):
        return yaml.ScalarNode(node.tag, node.value, node.start_mark,
                               node.end_mark, style=node.style)
    if isinstance(node, yaml.SequenceNode):
        return yaml.SequenceNode(node.tag, [expand(x) for x in node.value],
                                 node.start_mark, node.end_mark,
                                 flow_style=node.flow_style)
    return yaml.MappingNode(node.tag, [(expand(k), expand(v))
                                       for k, v in node.value],
                            node.start_mark, node.end_mark,
                            flow_style=node.flow_style)


def has_cycle(node, stack=None):
    stack = stack or set()
    if id(node) in stack:
        return True
    if isinstance(node, yaml.ScalarNode):
        return False
    stack = stack | {id(node)}
    if isinstance(node, yaml.SequenceNode):
        return any(has_cycle(x, stack) for x in node.value)
    return any(has_cycle(k, stack) or has_cycle(v, stack)
               for k, v in node.value)


def outcome(load, text):
    try:
        return ('ok', load(text))
    except (yatiml.RecognitionError, yaml.YAMLError) as ex:
        return ('error', type(ex).__name__)
    except RecursionError:
        return ('crash', 'RecursionError')
    except Exception as ex:      # noqa
        return ('crash', type(ex).__name__)


def compare(load, text):
    node = yaml.compose(text)
    if node is None or has_cycle(node):
        return None
    expanded = yaml.serialize(expand(node))
    a = outcome(load, text)
    b = outcome(load, expanded)
    same = (a[0] == b[0]) and (a[0] != 'ok' or a[1] == b[1])
    return same, a, b, expanded


CASES = []


def add(model, load, texts):
    for t in texts:
        CASES.append((model, load, t))


add('List[int]', yatiml.load_function(List[int]), [
    '[&a 1, *a]', '[&a 1, *a, *a]', '[&a 1, 2, *a]', '[&a x, *a]',
    '- &a 1\n- &b 2\n- *a\n- *b\n'])
add('List[List[int]]', yatiml.load_function(List[List[int]]), [
    '[&a [1, 2], *a]', '[&a [1, 2], [3], *a]', '[&a [1, x], *a]',
    '[&a [&b 1, *b], *a]', '[[&b 1, *b], [*b]]'])
add('Dict[str, List[int]]', yatiml.load_function(Dict[str, List[int]]), [
    'x: &a [1, 2]\ny: *a\n', 'x: &a []\ny: *a\nz: *a\n',
    'x: &a [1]\ny: [2]\nz: *a\n', 'x: &a 5\ny: *a\n',
    '&k x: [1]\ny: [2]\n'])
add('Union[int, str] list', yatiml.load_function(List[Union[int, str]]), [
    '[&a 1, *a, &b x, *b]', '[&a 1.5, *a]'])
add('Doc(Item)', yatiml.load_function(Doc, Item), [
    'first: &i {a: 1}\nitems: [*i]\n',
    'first: &i {a: 1, b: y}\nitems: [*i, {a: 2}, *i]\n',
    'first: {a: 1}\nitems: [&j {a: 2}, *j]\n',
    'first: &i {a: x}\nitems: [*i]\n',
    'first: {a: &n 1}\nitems: [{a: *n}]\n',
    'first: {a: 1}\nitems: []\nextra: &e {k: 1}\n',
    'first: {a: 1, b: &s hello}\nitems: [{a: 2, b: *s}]\n',
    'first: &i {a: 1}\nitems: [*i]\nextra: {k: &n 3, l: *n}\n'])
add('Any', yatiml.load_function(), [
    'x: &a [1, {y: 2}]\nz: *a\n', '[&a {k: v}, *a, *a]',
    'a: &x !Foo bar\nb: *x\n'])

KNOWN = [
    ('D8', 'enum alias', yatiml.load_function(List[Color], Color),
     '[&a red, *a]'),
    ('D8', 'Path alias', yatiml.load_function(List[Path]), '[&a /tmp, *a]'),
    ('D8', 'enum attr alias', yatiml.load_function(Pal, Color),
     'a: &c red\nb: *c\n'),
    ('D22', 'class and Any share a node', yatiml.load_function(Mixed, Item),
     'p: &i {a: 1}\nq: *i\n'),
    ('D22', 'str and Any-typed list share a scalar',
     yatiml.load_function(Mixed, Item), 'p: {a: &n 1}\nq: *n\n'),
]


def main():
    if '--known' in sys.argv:
        out = []
        for did, what, load, text in KNOWN:
            r = compare(load, text)
            out.append({'id': did, 'what': what, 'text': text,
                        'reproduces': (r is not None and not r[0]),
                        'aliased': repr(r[1]) if r else None,
                        'expanded': repr(r[2]) if r else None})
        # D9: cycle
        r = outcome(yatiml.load_function(), '&a [*a]')
        out.append({'id': 'D9', 'what': 'self-referential alias',
                    'text': '&a [*a]', 'reproduces': r[0] == 'crash',
                    'aliased': repr(r)})
        print(json.dumps(out, indent=1))
        return 0
    failures = []
    n = 0
    for model, load, text in CASES:
        r = compare(load, text)
        if r is None:
            continue
        n += 1
        if not r[0]:
            failures.append({'model': model, 'text': text,
                             'aliased': repr(r[1])[:200],
                             'expanded': repr(r[2])[:200]})
    print(json.dumps({'evaluations': n, 'n_failures': len(failures),
                      'failures': failures[:6]}))
    return 0


if __name__ == '__main__':
    sys.exit(main())
