"""Obligations over the effect/ownership summaries of the wiring code
(pyvc.glue): call-argument equalities (C12), option plumbing (C06, C07),
registration (C04) and frame conditions (C11).  Each obligation is decided on
the summaries extracted from the repository's current AST."""
import os
import sys
import time

VERIF = os.path.dirname(os.path.dirname(os.path.abspath(__file__)))
sys.path.insert(0, VERIF)
from pyvc.program import Program        # noqa: E402
from pyvc import glue as G              # noqa: E402
from checks.main import Item            # noqa: E402


class Ctx:
    def __init__(self, run, prop):
        self.run = run
        self.prop = prop
        self.prog = Program(run.repo)
        self.g = G.Glue(self.prog)

    def ob(self, group, label, ok, detail=None):
        it = Item('%s::%s' % (self.prop, group), 'struct', label,
                  'discharged' if ok else 'refuted', 'effect-summary', 0.0,
                  props=[self.prop])
        if not ok:
            it.witness = {'kind': 'native', 'validated': False,
                          'obligation': it.group, 'label': label,
                          'verdict': {'reproduced': False,
                                      'detail': str(detail)[:1500]}}
        self.run.add(it)
        return ok

    def guarded(self, group, fn):
        try:
            fn()
        except G.GlueUnsupported as u:
            self.run.unsupported.append((group, 'glue: %s' % u))
        except (KeyError, IndexError, AttributeError) as ex:
            self.run.unsupported.append((group, 'glue: summary has an '
                                         'unexpected shape: %r' % ex))


def calls(path, dotted):
    return [e for e in path.effects if e.kind == 'call' and isinstance(
        e.target, G.Ext) and e.target.dotted == dotted]


def factory(ctx, qual):
    """-> list of (factory path, returned instance)"""
    out = []
    for p in ctx.g.run(qual):
        if p.raised:
            continue
        out.append((p, p.ret))
    return out


def is_sym(v, name):
    return isinstance(v, G.Sym) and v.name == name


def kw_canon(kwargs):
    return tuple(sorted((k, G.canon(v)) for k, v in kwargs.items()))


# ------------------------------------------------------------------ C12
def c12(ctx):
    def load():
        fac = factory(ctx, 'yatiml/loader.py::load_function')
        ctx.ob('load::factory-returns-instance', 'load_function returns an '
               'instance of its local LoadFunction on every path',
               bool(fac) and all(isinstance(r, G.Inst) for _, r in fac),
               [G.canon(r) for _, r in fac])
        seen = 0
        for fp, inst in fac[:2]:
            loader = inst.attrs.get('loader')
            ctx.ob('load::loader-is-the-class-made-here',
                   'LoadFunction.loader is the UserLoader subclass created '
                   'in this very call, derived from yatiml Loader',
                   isinstance(loader, G.LocalClass) and [G.canon(b) for b in
                                                         loader.bases] ==
                   [('repoclass', 'yatiml/loader.py', 'Loader')],
                   G.canon(loader))
            paths = ctx.g.run_func(ctx.g.getattr(inst, '__call__', None))
            for q in paths:
                if q.raised:
                    continue
                seen += 1
                lc = calls(q, 'yaml.load')
                ok = len(lc) == 1 and set(lc[0].detail[1]) == {'Loader'} \
                    and lc[0].detail[1]['Loader'] is loader \
                    and len(lc[0].detail[0]) == 1
                ctx.ob('load::one-yaml-load-with-this-loader',
                       'every path of LoadFunction.__call__ makes exactly one '
                       'yaml.load(src, Loader=self.loader) call',
                       ok, q.effects)
                if not ok:
                    continue
                src = lc[0].detail[0][0]
                is_path = any(b for c, b in q.assume)
                opens = [e for e in q.effects if e.kind == 'open']
                if is_path:
                    ok2 = len(opens) == 1 and is_sym(opens[0].target,
                                                     'source') and \
                        G.canon(opens[0].detail[0]) == (('const', "'r'"),) \
                        and isinstance(src, G.Term) and src.op == 'open' \
                        and is_sym(src.args[0], 'source')
                else:
                    ok2 = not opens and is_sym(src, 'source')
                ctx.ob('load::source-passed-unchanged',
                       'a Path source is opened in text mode r and the file '
                       'handed to yaml.load; every other source is handed '
                       'to yaml.load as it is', ok2, q.effects)
                other = [e for e in q.effects if e.kind not in ('open',
                                                                'call')
                         or (e.kind == 'call' and e not in lc)]
                ctx.ob('load::no-other-effect', 'LoadFunction.__call__ has '
                       'no other effect', not other, other)
        ctx.ob('load::paths-covered', 'both source branches analysed',
               seen >= 2, seen)
    ctx.guarded('load', load)

    for (a, b, tag) in (('dump_function', 'dumps_function', 'yaml'),
                        ('dump_json_function', 'dumps_json_function',
                         'json')):
        def pair(a=a, b=b, tag=tag):
            fa = factory(ctx, 'yatiml/dumper.py::' + a)
            fb = factory(ctx, 'yatiml/dumper.py::' + b)
            ok = len(fa) == 1 and len(fb) == 1 and all(isinstance(
                r, G.Inst) for _, r in fa + fb)
            ctx.ob(tag + '::factories-return-instances', '%s and %s return '
                   'an instance of their local function class' % (a, b), ok)
            if not ok:
                return
            (pa, ia), (pb, ib) = fa[0], fb[0]
            da, db = ia.attrs.get('dumper'), ib.attrs.get('dumper')
            ok = isinstance(da, G.LocalClass) and isinstance(
                db, G.LocalClass) and da.canon() == db.canon()
            ctx.ob(tag + '::same-dumper-class', 'the UserDumper classes of '
                   '%s and %s have the same bases and class attributes'
                   % (a, b), ok, (G.canon(da), G.canon(db)))

            def setup(p, inst):
                return [e.canon() for e in p.effects
                        if not (e.kind == 'setattr' and e.target is inst)]
            ctx.ob(tag + '::same-registration', 'both factories register '
                   'the same representers on their dumper class',
                   setup(pa, ia) == setup(pb, ib),
                   (setup(pa, ia), setup(pb, ib)))
            qb = [q for q in ctx.g.run_func(ctx.g.getattr(
                ib, '__call__', None)) if not q.raised]
            ok = len(qb) == 1 and len(calls(qb[0], 'yaml.dump')) == 1
            ctx.ob(tag + '::dumps-one-yaml-dump', '%s.__call__ makes one '
                   'yaml.dump call' % b, ok)
            if not ok:
                return
            ref = calls(qb[0], 'yaml.dump')[0]
            ok = len(ref.detail[0]) == 1 and is_sym(ref.detail[0][0], 'obj') \
                and ref.detail[1].get('Dumper') is db
            ctx.ob(tag + '::dumps-uses-own-dumper', '%s dumps obj with the '
                   'dumper class made in the same call, to a string' % b, ok,
                   ref)
            refkw = kw_canon({k: v for k, v in ref.detail[1].items()
                              if k != 'Dumper'})
            qa = [q for q in ctx.g.run_func(ctx.g.getattr(
                ia, '__call__', None)) if not q.raised]
            ctx.ob(tag + '::dump-three-sink-kinds', '%s.__call__ has the '
                   'three sink branches (str, Path, stream)' % a,
                   len(qa) == 3, len(qa))
            for q in qa:
                dc = calls(q, 'yaml.dump')
                ok = len(dc) == 1 and len(dc[0].detail[0]) == 2 and is_sym(
                    dc[0].detail[0][0], 'obj') and \
                    dc[0].detail[1].get('Dumper') is da and kw_canon({
                        k: v for k, v in dc[0].detail[1].items()
                        if k != 'Dumper'}) == refkw
                ctx.ob(tag + '::same-dump-options', 'every sink branch of '
                       '%s calls yaml.dump(obj, <sink>, ...) with exactly '
                       'the Dumper and options %s uses' % (a, b), ok,
                       (q.effects, refkw))
                if not ok:
                    continue
                sink = dc[0].detail[0][1]
                opens = [e for e in q.effects if e.kind == 'open']
                if opens:
                    tgt = opens[0].target
                    ok2 = len(opens) == 1 and G.canon(
                        opens[0].detail[0]) == (('const', "'w'"),) and \
                        isinstance(sink, G.Term) and sink.op == 'open' and (
                            is_sym(tgt, 'sink') or (isinstance(tgt, G.Fresh)
                                                    and tgt.kind in (
                                                        'Path',
                                                        'pathlib.Path')
                                                    and len(tgt.items) == 1
                                                    and is_sym(tgt.items[0],
                                                               'sink')))
                else:
                    ok2 = is_sym(sink, 'sink')
                ctx.ob(tag + '::sink-handling', 'a str sink becomes '
                       'Path(sink), a Path is opened with mode w, a stream '
                       'is passed as it is', ok2, q.effects)
        ctx.guarded(tag, pair)


# ------------------------------------------------------------- C06 / C07
def dumper_init(ctx):
    def f():
        paths = [p for p in ctx.g.run('yatiml/dumper.py::Dumper.__init__')
                 if not p.raised]
        ctx.ob('init::two-paths', 'Dumper.__init__ branches only on '
               '`indent is not None`', len(paths) == 2, len(paths))
        for p in paths:
            ic = [e for e in p.effects if e.kind == 'call' and isinstance(
                e.target, G.Ext) and e.target.dotted ==
                'yaml.SafeDumper.__init__']
            ok = len(ic) == 1 and len(ic[0].detail[0]) == 15 and isinstance(
                ic[0].detail[0][14], G.Const) and \
                ic[0].detail[0][14].v is False and is_sym(
                    ic[0].detail[0][0], 'self') and is_sym(
                    ic[0].detail[0][5], 'indent') and is_sym(
                    ic[0].detail[0][7], 'allow_unicode')
            ctx.ob('init::sort-keys-false', 'Dumper.__init__ passes '
                   'sort_keys=False (the 14th argument) to SafeDumper, '
                   'whatever the caller passed, and forwards indent and '
                   'allow_unicode', ok, ic)
            st = {e.detail[0]: e.detail[1] for e in p.effects
                  if e.kind == 'setattr' and is_sym(e.target, 'self')}
            js = st.get('_json_state')
            ok = isinstance(js, G.Fresh) and js.kind == 'list' and len(
                js.items) == 1 and G.canon(js.items[0])[-1] == 'NONE'
            ctx.ob('init::fresh-state-stack', 'every Dumper instance gets '
                   'its own fresh _json_state == [NONE]', ok, G.canon(js))
            ci = st.get('_cur_indent')
            ctx.ob('init::indent-zero', '_cur_indent starts at 0 on the '
                   'instance', isinstance(ci, G.Const) and ci.v == 0,
                   G.canon(ci))
            ctx.ob('init::requested-indent', '_requested_indent is the '
                   'indent argument', is_sym(st.get('_requested_indent'),
                                             'indent'))
            given = [b for c, b in p.assume][0] if p.assume else None
            kv = st.get('_kv_sep')
            ok = isinstance(kv, G.Const) and kv.v == (': ' if given else ':')
            ctx.ob('init::kv-sep', "_kv_sep is ': ' iff an indent was "
                   "given, else ':'", ok, (given, G.canon(kv)))
    ctx.guarded('init', f)


def dumper_emit(ctx):
    def f():
        paths = [p for p in ctx.g.run('yatiml/dumper.py::Dumper.emit')
                 if not p.raised]
        ok = len(paths) == 2
        ctx.ob('emit::dispatch', 'Dumper.emit dispatches on output_format',
               ok, len(paths))
        for p in paths:
            js = [e for e in p.effects if e.kind == 'callrepo' or (
                e.kind == 'call' and 'emit' in str(G.canon(e.target)))]
            ctx.ob('emit::forwards-event', 'each branch forwards the event '
                   'to exactly one emitter', len(js) == 1 and is_sym(
                       js[0].detail[0][-1], 'event'), p.effects)
    ctx.guarded('emit', f)


def json_options(ctx):
    def f():
        for name in ('dumps_json_function', 'dump_json_function'):
            fac = factory(ctx, 'yatiml/dumper.py::' + name)
            inst = fac[0][1]
            d = inst.attrs['dumper']
            of = d.attrs.get('output_format')
            ctx.ob('json::%s::output-format' % name, 'the dumper class of '
                   '%s has output_format json' % name,
                   isinstance(of, G.Const) and of.v == 'json', G.canon(of))
            for q in ctx.g.run_func(ctx.g.getattr(inst, '__call__', None)):
                if q.raised:
                    continue
                dc = calls(q, 'yaml.dump')
                kw = dc[0].detail[1] if dc else {}
                au = kw.get('allow_unicode')
                ok = len(dc) == 1 and is_sym(kw.get('indent'), 'indent') \
                    and isinstance(au, G.Term) and au.op == 'not' and \
                    is_sym(au.args[0], 'ensure_ascii') and set(kw) == {
                        'Dumper', 'indent', 'allow_unicode'}
                ctx.ob('json::%s::options' % name, '%s passes indent=indent '
                       'and allow_unicode=not ensure_ascii and nothing '
                       'else' % name, ok, dc)
    ctx.guarded('json', f)


def kind_conditions(paths, method, kinds3):
    """the kind of representer / constructor registered for a class is
    decided by the class kind with ENUM FIRST: on every path that registers
    something other than the enum kind the path condition has established
    that the class is not an enum, and the plain kind is registered only
    after string-likeness has been refuted as well.  -> (ok, detail)"""
    enum_k, str_k, plain_k = kinds3
    bad = []
    for p in paths:
        for e in p.effects:
            if not (e.kind == 'call' and isinstance(e.target, G.Term)
                    and e.target.op == 'attr'
                    and e.target.args[1] == method):
                continue
            rep = e.detail[0][1]
            if not (isinstance(rep, G.Term) and rep.op == 'new'):
                continue
            kind = G.canon(rep.args[0])[-1]
            cls_arg = G.canon(rep.args[1]) if len(rep.args) > 1 else None
            facts = {}
            for (c, val) in p.assume:
                cc = G.canon(c)
                if cc[:3] == ('term', 'call', ('ext', 'issubclass')) and \
                        cc[3] == cls_arg:
                    what = 'enum' if cc[4] == ('ext', 'enum.Enum') else (
                        'strlike' if 'collections.UserString' in str(cc[4])
                        else str(cc[4]))
                    facts[what] = val
            want = {enum_k: {'enum': True},
                    str_k: {'enum': False, 'strlike': True},
                    plain_k: {'enum': False, 'strlike': False}}.get(kind)
            if want is None or any(facts.get(k) is not v
                                   for k, v in want.items()):
                bad.append((kind, e.line, facts))
    return not bad, bad


def representer_registration(ctx):
    def f():
        paths = [p for p in ctx.g.run('yatiml/dumper.py::add_to_dumper')
                 if not p.raised]
        kinds = set()
        good = True
        for p in paths:
            for e in p.effects:
                if e.kind in ('loop-begin', 'loop-end', 'new'):
                    continue
                ok = e.kind == 'call' and isinstance(e.target, G.Term) and \
                    e.target.op == 'attr' and is_sym(e.target.args[0],
                                                     'dumper') and \
                    e.target.args[1] == 'add_representer'
                if ok:
                    cls_arg, rep = e.detail[0]
                    ok = isinstance(rep, G.Term) and rep.op == 'new' and \
                        rep.args[1] is cls_arg
                    kinds.add(G.canon(rep.args[0])[-1] if ok else '?')
                good = good and ok
        ctx.ob('register::only-add-representer', 'add_to_dumper only calls '
               'dumper.add_representer(class_, <Representer kind>(class_))',
               good, [p.effects for p in paths])
        ctx.ob('register::kinds', 'enum classes get EnumRepresenter, '
               'string-likes UserStringRepresenter, others Representer',
               kinds == {'EnumRepresenter', 'UserStringRepresenter',
                         'Representer'}, kinds)
        okc, det = kind_conditions(paths, 'add_representer', (
            'EnumRepresenter', 'UserStringRepresenter', 'Representer'))
        ctx.ob('register::kind-by-class-kind', 'an enum class (also one that '
               'is string-like, e.g. class C(str, Enum)) gets the '
               'EnumRepresenter; the string representer is chosen only for '
               'non-enums, the plain one only for classes that are neither',
               okc, det)
        top = ctx.g.run_toplevel('yatiml/dumper.py')
        effs = [e for p in top for e in p.effects if e.kind != 'new']
        ok = len(effs) >= 3 and all(
            e.kind == 'call' and isinstance(e.target, G.Term)
            and G.canon(e.target.args[0]) == ('repoclass',
                                              'yatiml/dumper.py', 'Dumper')
            and e.target.args[1] in ('add_representer',
                                     'add_implicit_resolver')
            for e in effs)
        ctx.ob('register::import-time', 'everything yatiml registers at '
               'import time (representers, implicit resolvers) is '
               'registered on yatiml.Dumper itself, never on '
               'yaml.SafeDumper', ok, effs)
        od = [p for p in ctx.g.run(
            'yatiml/dumper.py::Dumper.represent_ordereddict')]
        ok = len(od) == 1 and isinstance(od[0].ret, G.Term) and 'represent_dict' \
            in str(G.canon(od[0].ret))
        ctx.ob('register::ordereddict-as-dict', 'an OrderedDict is '
               'represented as a plain dict (no tag)', ok,
               G.canon(od[0].ret) if od else None)
    ctx.guarded('register', f)


# ------------------------------------------------------------------ C04
def constructor_registration(ctx):
    def f():
        m = ctx.prog.modules['yatiml/loader.py']
        import ast as _ast
        b = [_ast.unparse(x) for x in m.classes['Loader'].bases]
        ctx.ob('safe::loader-base', 'yatiml.Loader derives from '
               'yaml.SafeLoader only', b == ['yaml.SafeLoader'], b)
        d = ctx.prog.modules['yatiml/dumper.py']
        b = [_ast.unparse(x) for x in d.classes['Dumper'].bases]
        ctx.ob('safe::dumper-base', 'yatiml.Dumper derives from '
               'yaml.SafeDumper only', b == ['yaml.SafeDumper'], b)
        paths = [p for p in ctx.g.run('yatiml/loader.py::add_to_loader')
                 if not p.raised]
        kinds = set()
        good = True
        for p in paths:
            for e in p.effects:
                if e.kind in ('loop-begin', 'loop-end', 'new'):
                    continue
                if e.kind == 'call':
                    ok = isinstance(e.target, G.Term) and e.target.op == \
                        'attr' and is_sym(e.target.args[0], 'loader_cls') \
                        and e.target.args[1] == 'add_constructor'
                    if ok:
                        tag, con = e.detail[0]
                        ok = isinstance(con, G.Term) and con.op == 'new'
                        kinds.add(G.canon(con.args[0])[-1] if ok else '?')
                elif e.kind == 'setattr':
                    ok = is_sym(e.target, 'loader_cls') and e.detail[0] == \
                        '_registered_classes' and isinstance(
                        e.detail[1], G.Fresh)
                elif e.kind == 'setitem':
                    ok = True       # checked by the frame obligations (C11)
                else:
                    ok = False
                good = good and ok
        ctx.ob('register::only-yatiml-constructors', 'add_to_loader only '
               'registers yatiml constructors for the given classes',
               good and kinds == {'EnumConstructor', 'UserStringConstructor',
                                  'Constructor'}, (kinds, [p.effects for p
                                                           in paths][:2]))
        okc, det = kind_conditions(paths, 'add_constructor', (
            'EnumConstructor', 'UserStringConstructor', 'Constructor'))
        ctx.ob('register::kind-by-class-kind', 'an enum class (also a '
               'string-like one) gets the EnumConstructor; the string '
               'constructor is chosen only for non-enums, the generic one '
               'only for classes that are neither', okc, det)
        fac = factory(ctx, 'yatiml/loader.py::load_function')
        okp = True
        for p, inst in fac:
            ac = [e for e in p.effects if e.kind == 'call' and isinstance(
                e.target, G.Term) and e.target.op == 'attr' and
                e.target.args[1] == 'add_constructor']
            okp = okp and len(ac) == 1 and G.canon(ac[0].detail[0][0]) == (
                'const', "'!Path'") and 'PathConstructor' in str(
                G.canon(ac[0].detail[0][1]))
        ctx.ob('register::path-constructor', 'load_function itself only '
               'adds the !Path constructor', okp)
    ctx.guarded('c04', f)


# ------------------------------------------------------------------ C11
SHARED_WRITE_OK = {
    # (function, attribute): justification
    ('yatiml/constructors.py::Constructor.__call__', '__loader'):
        'the loader is only used to resolve tags in strip_tags and all '
        'loaders of one load function carry the same resolver table',
}


def owned_attrs(ctx, cls_qual):
    """attributes that __init__ of the class assigns a fresh object (or an
    immutable constant) on the instance"""
    owned = set()
    try:
        paths = ctx.g.run(cls_qual + '.__init__')
    except (G.GlueUnsupported, KeyError):
        return owned
    first = True
    for p in paths:
        if p.raised:
            continue
        cur = {e.detail[0] for e in p.effects if e.kind == 'setattr'
               and is_sym(e.target, 'self') and (
                   getattr(e.detail[1], 'fresh', False)
                   or isinstance(e.detail[1], G.Const))}
        owned = cur if first else (owned & cur)
        first = False
    return owned


def frames(ctx):
    entries = {
        'yatiml/loader.py::load_function': {},
        'yatiml/loader.py::add_to_loader': {'loader_cls'},
        'yatiml/loader.py::set_document_type': {'loader_cls'},
        'yatiml/loader.py::Loader.__init__': {'self'},
        'yatiml/loader.py::Loader.__patch_floats': {'self'},
        'yatiml/loader.py::Loader.__patch_bools': {'self'},
        'yatiml/loader.py::Loader.__savorize': set(),
        'yatiml/loader.py::Loader.__type_to_tag': set(),
        'yatiml/loader.py::Loader.get_single_node': set(),
        'yatiml/dumper.py::dumps_function': {},
        'yatiml/dumper.py::dump_function': {},
        'yatiml/dumper.py::dumps_json_function': {},
        'yatiml/dumper.py::dump_json_function': {},
        'yatiml/dumper.py::add_to_dumper': {'dumper'},
        'yatiml/dumper.py::Dumper.__init__': {'self'},
        'yatiml/dumper.py::Dumper.emit_json': {'self'},
        'yatiml/dumper.py::Dumper._do_endline': {'self'},
        'yatiml/representers.py::Representer.__call__': set(),
        'yatiml/representers.py::Representer.__sweeten': set(),
        'yatiml/representers.py::EnumRepresenter.__call__': set(),
        'yatiml/representers.py::UserStringRepresenter.__call__': set(),
        'yatiml/constructors.py::Constructor.__call__': set(),
        'yatiml/recognizer.py::Recognizer.recognize': set(),
        'yatiml/recognizer.py::Recognizer.__recognize_scalar': set(),
        'yatiml/recognizer.py::Recognizer.__recognize_list': set(),
        'yatiml/recognizer.py::Recognizer.__recognize_dict': set(),
        'yatiml/recognizer.py::Recognizer.__recognize_union': set(),
        'yatiml/recognizer.py::Recognizer.__recognize_user_class': set(),
        'yatiml/recognizer.py::Recognizer.__recognize_user_classes': set(),
        'yatiml/util.py::diagnose_missing_key': set(),
        'yatiml/util.py::diagnose_extraneous_key': set(),
        'yatiml/irecognizer.py::format_rec_error': set(),
    }
    owned = {'Loader': owned_attrs(ctx, 'yatiml/loader.py::Loader'),
             'Dumper': owned_attrs(ctx, 'yatiml/dumper.py::Dumper')}
    # class-level defaults that are later written through must be None
    m = ctx.prog.modules['yatiml/loader.py']
    import ast as _ast
    for attr in ('_registered_classes', '_additional_classes'):
        v = m.classes['Loader'].attrs.get(attr)
        ctx.ob('frame::class-default::' + attr, 'the class-level default of '
               'Loader.%s is None (a per-subclass dict is made on first '
               'use; nothing is shared between loaders)' % attr,
               v is not None and _ast.unparse(v) == 'None',
               _ast.unparse(v) if v is not None else None)
    for cls, rel in (('Loader', 'yatiml/loader.py'),
                     ('Dumper', 'yatiml/dumper.py')):
        for attr, v in ctx.prog.modules[rel].classes[cls].attrs.items():
            mut = isinstance(v, (_ast.List, _ast.Dict, _ast.Set,
                                 _ast.ListComp, _ast.DictComp)) or (
                isinstance(v, _ast.Call) and _ast.unparse(v.func) not in (
                    'type', 'logging.getLogger', 'frozenset', 'tuple'))
            ctx.ob('frame::no-mutable-class-attr::%s.%s' % (cls, attr),
                   'class attribute %s.%s is not a mutable object shared by '
                   'all instances' % (cls, attr), not mut, _ast.unparse(v))

    for qual, writable in entries.items():
        def one(qual=qual, writable=writable):
            try:
                paths = ctx.g.run(qual)
            except KeyError:
                ctx.run.unsupported.append((qual, 'function not found'))
                return
            cname = qual.split('::')[1].split('.')[0]
            bad = []
            n = 0
            for p in paths:
                made_here = set()
                for e in p.effects:
                    if e.kind in ('loop-begin', 'loop-end', 'new', 'open'):
                        continue
                    if e.kind == 'callrepo':
                        # helper that writes its first argument: it must be
                        # an object made in this activation (or writable)
                        fq = e.target.fn.qual
                        if fq.endswith(('add_to_loader', 'add_to_dumper',
                                        'set_document_type')):
                            a0 = e.detail[0][0]
                            if not (getattr(a0, 'fresh', False) or (
                                    isinstance(a0, G.Sym)
                                    and a0.name in writable)):
                                bad.append(('helper writes a shared object',
                                            e))
                        continue
                    if e.kind == 'call':
                        t = e.target
                        # registering on a class / writing to a stream
                        if isinstance(t, G.Term) and t.op == 'attr' and \
                                t.args[1] in ('add_constructor',
                                              'add_representer'):
                            k, o = G.root_of(t.args[0])
                            if not (k == 'fresh' or (
                                    k == 'param' and o.name in writable)):
                                bad.append(('registration on a shared class',
                                            e))
                        continue
                    n += 1
                    tgt = e.target
                    k, o = G.root_of(tgt)
                    if k == 'fresh':
                        continue
                    if k == 'param' and isinstance(tgt, G.Sym) and \
                            tgt.name in writable and e.kind == 'setattr':
                        continue        # self.x = ... / loader_cls.x = ...
                    if k == 'via:param' and isinstance(tgt, G.Term) and \
                            tgt.op == 'attr' and isinstance(
                            tgt.args[0], G.Sym) and \
                            tgt.args[0].name in writable:
                        attr = tgt.args[1]
                        if tgt.args[0].name == 'self' and attr in owned.get(
                                cname, ()):
                            continue    # object owned by the instance
                        if tgt.args[0].name != 'self' and attr in (
                                '_registered_classes',
                                '_additional_classes'):
                            continue    # per-class dict (default None)
                    if e.kind == 'setattr' and isinstance(tgt, G.Sym) and (
                            qual, e.detail[0]) in SHARED_WRITE_OK:
                        ctx.run.assumptions.add(
                            'shared write admitted: %s.%s -- %s' % (
                                qual, e.detail[0],
                                SHARED_WRITE_OK[(qual, e.detail[0])]))
                        continue
                    if qual.endswith(('Representer.__call__',
                                      'Representer.__sweeten',
                                      'Loader.__savorize',
                                      'Constructor.__call__')) and \
                            e.kind in ('setattr', 'setitem', 'mutate') and \
                            k in ('via:param', 'param', 'unknown',
                                  'via:fresh', 'via:unknown'):
                        # node objects of the document being processed
                        nm = str(G.canon(tgt))
                        if 'node' in nm or 'represented' in nm or \
                                'new_obj' in nm:
                            continue
                    bad.append(('store outside the frame (root %s)' % k, e))
            ctx.ob('frame::' + qual.split('::')[1], '%s writes only objects '
                   'created in the call, its own instance, or the class '
                   'made for this load/dump function (%d stores checked)'
                   % (qual, n), not bad, bad[:4])
        ctx.guarded('frame::' + qual, one)


# ------------------------------------------------------------------ C13
PRESENTATION = ('style', 'flow_style', 'start_mark', 'end_mark', 'anchor',
                'comment', 'implicit')
MESSAGE_CALLS = ('format', 'str', 'indent', 'RecognitionError',
                 'SeasoningError', 'RuntimeError', 'repr')
NODE_CTORS = ('ScalarNode', 'MappingNode', 'SequenceNode', 'Mark')


def read_frame(ctx, files=('yatiml/recognizer.py', 'yatiml/loader.py',
                           'yatiml/constructors.py', 'yatiml/util.py',
                           'yatiml/irecognizer.py',
                           'yatiml/introspection.py')):
    """presentation details of nodes (styles, marks) are never inspected:
    they only flow into messages and into nodes that are built"""
    import ast as _ast
    for rel in files:
        mod = ctx.prog.modules[rel]
        parents = {}
        for n in _ast.walk(mod.tree):
            for ch in _ast.iter_child_nodes(n):
                parents[id(ch)] = n
        bad = []
        uses = 0
        for n in _ast.walk(mod.tree):
            if not (isinstance(n, _ast.Attribute) and n.attr in PRESENTATION):
                continue
            if isinstance(n.ctx, _ast.Store):
                continue
            uses += 1
            ok = False
            cur = n
            while id(cur) in parents:
                par = parents[id(cur)]
                if isinstance(par, _ast.Call):
                    f = par.func
                    nm = f.attr if isinstance(f, _ast.Attribute) else (
                        f.id if isinstance(f, _ast.Name) else '')
                    if cur is not f and (nm in MESSAGE_CALLS
                                         or nm in NODE_CTORS):
                        ok = True
                        break
                if isinstance(par, (_ast.Assign, _ast.AnnAssign)):
                    tg = par.targets[0] if isinstance(
                        par, _ast.Assign) else par.target
                    # start_mark = node.start_mark  (a local that is later
                    # passed to a node constructor) or x.start_mark = ...
                    if isinstance(tg, _ast.Attribute) and tg.attr in \
                            PRESENTATION:
                        ok = True
                    elif isinstance(tg, _ast.Name) and tg.id in (
                            'start_mark', 'end_mark', 'loc_str', 'message',
                            'msg'):
                        ok = True
                    break
                if isinstance(par, (_ast.If, _ast.While, _ast.Compare,
                                    _ast.BoolOp, _ast.IfExp, _ast.Subscript,
                                    _ast.comprehension, _ast.Return)):
                    break
                cur = par
            if not ok:
                bad.append('%s:%d .%s' % (rel, n.lineno, n.attr))
        ctx.ob('readframe::' + rel, 'in %s the presentation details of a '
               'node (%s) are only put into messages or into nodes being '
               'built, never inspected (%d uses)' % (
                   rel, ', '.join(PRESENTATION[:4]), uses), not bad, bad)
