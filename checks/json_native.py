"""BOUNDED stand-in (never counted as proved) for the end-to-end clauses of C07
that the step contract of Dumper.emit_json does not carry by itself: the real
dumps_json functions are run under /venv/bin/python on an enumerated family of
values, for every indent in {None, 0, 1, 2, 4, 8} and ensure_ascii in
{True, False}:
  (1) the text is strict RFC 8259 JSON (a strict tokenizer written here, not
      json.loads alone: no NaN/Infinity, only the RFC's escapes, no raw
      control characters, nothing after the value);
  (2) parsed, it equals the JSON projection of the value written here
      independently (order of keys compared);
  (3) with ensure_ascii=True (the default) the text is ASCII only, and with
      indent=None it has no whitespace outside strings;
  (4) with ensure_ascii=False no non-ASCII character is escaped;
  (5) when all strings are printable BMP, loading the text with the matching
      load function gives back an equal value (not asserted for values that
      contain dates: known finding D24).
Bound: all plain-data trees of depth <= 2 over 9 scalars and 12 strings
(ASCII, Latin-1, BMP, non-BMP, quotes, backslashes, control characters,
U+2028, strings that look like numbers / booleans / null) with containers of
0-2 entries, plus 3 class models (plain, _yatiml_extra, enum / Path / date
attributes, a sweeten hook that writes a null attribute).  Prints a JSON
record."""
import collections
import datetime
import enum
import itertools
import json
import pathlib
import re
from collections import OrderedDict
from typing import Any, Dict, List, Optional, Union

import yatiml

failures = []
evals = 0


def record(clause, model, obj, opts, got, want=None):
    if len(failures) < 50:
        failures.append({'clause': clause, 'model': model,
                         'object': repr(obj)[:200], 'options': repr(opts),
                         'got': repr(got)[:300], 'expected': repr(want)[:300]})


# ------------------------------------------------------------ strict JSON
NUM = re.compile(r'-?(0|[1-9][0-9]*)(\.[0-9]+)?([eE][+-]?[0-9]+)?')
WS = ' \t\n\r'


class Bad(Exception):
    pass


def parse_strict(text):
    """RFC 8259 value parser; returns (value, whitespace_outside_strings)"""
    pos = [0]
    saw_ws = [False]

    def ws():
        while pos[0] < len(text) and text[pos[0]] in WS:
            pos[0] += 1
            saw_ws[0] = True

    def string():
        assert text[pos[0]] == '"'
        pos[0] += 1
        out = []
        while True:
            if pos[0] >= len(text):
                raise Bad('unterminated string')
            ch = text[pos[0]]
            if ch == '"':
                pos[0] += 1
                return ''.join(out)
            if ord(ch) < 0x20:
                raise Bad('raw control character in string')
            if ch == '\\':
                e = text[pos[0] + 1:pos[0] + 2]
                if e in '"\\/bfnrt' and e:
                    out.append({'"': '"', '\\': '\\', '/': '/', 'b': '\b',
                                'f': '\f', 'n': '\n', 'r': '\r',
                                't': '\t'}[e])
                    pos[0] += 2
                elif e == 'u':
                    h = text[pos[0] + 2:pos[0] + 6]
                    if not re.fullmatch(r'[0-9a-fA-F]{4}', h):
                        raise Bad('bad \\u escape')
                    out.append(chr(int(h, 16)))
                    pos[0] += 6
                else:
                    raise Bad('escape \\%s is not JSON' % e)
            else:
                out.append(ch)
                pos[0] += 1

    def value():
        ws()
        if pos[0] >= len(text):
            raise Bad('value expected at end of text')
        ch = text[pos[0]]
        if ch == '{':
            pos[0] += 1
            out = OrderedDict()
            ws()
            if text[pos[0]:pos[0] + 1] == '}':
                pos[0] += 1
                return out
            while True:
                ws()
                if text[pos[0]:pos[0] + 1] != '"':
                    raise Bad('object key must be a string')
                k = string()
                ws()
                if text[pos[0]:pos[0] + 1] != ':':
                    raise Bad('colon expected')
                pos[0] += 1
                v = value()
                if k in out:
                    raise Bad('duplicate key')
                out[k] = v
                ws()
                c = text[pos[0]:pos[0] + 1]
                pos[0] += 1
                if c == '}':
                    return out
                if c != ',':
                    raise Bad('comma or } expected')
        if ch == '[':
            pos[0] += 1
            out = []
            ws()
            if text[pos[0]:pos[0] + 1] == ']':
                pos[0] += 1
                return out
            while True:
                out.append(value())
                ws()
                c = text[pos[0]:pos[0] + 1]
                pos[0] += 1
                if c == ']':
                    return out
                if c != ',':
                    raise Bad('comma or ] expected')
        if ch == '"':
            return string()
        for lit, v in (('true', True), ('false', False), ('null', None)):
            if text.startswith(lit, pos[0]):
                pos[0] += len(lit)
                return v
        m = NUM.match(text, pos[0])
        if not m or not m.group(0):
            raise Bad('value expected at %d: %r' % (pos[0],
                                                    text[pos[0]:pos[0] + 10]))
        pos[0] = m.end()
        s = m.group(0)
        return float(s) if (m.group(2) or m.group(3)) else int(s)

    v = value()
    trailing = text[pos[0]:]
    if trailing.strip(WS):
        raise Bad('text after the value: %r' % trailing[:20])
    # a final line break is formatting, not content
    inner_ws = saw_ws[0]
    return v, inner_ws


def unpair(s):
    """json escapes non-BMP characters as surrogate pairs"""
    return s.encode('utf-16', 'surrogatepass').decode('utf-16')


def fix(v):
    if isinstance(v, str):
        return unpair(v)
    if isinstance(v, list):
        return [fix(x) for x in v]
    if isinstance(v, dict):
        return OrderedDict((unpair(k), fix(x)) for k, x in v.items())
    return v


def same(a, b):
    if type(a) is not type(b) and not (isinstance(a, dict)
                                       and isinstance(b, dict)):
        return False
    if isinstance(a, dict):
        return list(a.keys()) == list(b.keys()) and all(
            same(a[k], b[k]) for k in a)
    if isinstance(a, list):
        return len(a) == len(b) and all(same(x, y) for x, y in zip(a, b))
    return a == b


def bmp_printable(v):
    if isinstance(v, str):
        return all(c.isprintable() and ord(c) < 0x10000
                   and not 0xD800 <= ord(c) < 0xE000 for c in v)
    if isinstance(v, list):
        return all(bmp_printable(x) for x in v)
    if isinstance(v, dict):
        return all(bmp_printable(k) and bmp_printable(x)
                   for k, x in v.items())
    return True


INDENTS = (None, 0, 1, 2, 4, 8)


def check_one(model, dumps, loader, obj, proj, reload_ok=True):
    global evals
    for indent in INDENTS:
        for ea in (True, False):
            evals += 1
            opts = {'indent': indent, 'ensure_ascii': ea}
            try:
                kw = {}
                if indent is not None:
                    kw['indent'] = indent
                if not ea:
                    kw['ensure_ascii'] = False
                text = dumps(obj, **kw)
            except Exception as ex:      # noqa
                record('dumps_json raised', model, obj, opts, repr(ex))
                continue
            body = text[:-1] if text.endswith('\n') else text
            try:
                val, inner_ws = parse_strict(body)
            except (Bad, IndexError) as ex:
                record('not RFC 8259 JSON', model, obj, opts,
                       '%s in %r' % (ex, text[:120]))
                continue
            val = fix(val)
            if not same(val, proj):
                record('content differs from the projection', model, obj,
                       opts, val, proj)
            if ea and not body.isascii():
                record('non-ASCII output with ensure_ascii=True', model, obj,
                       opts, text[:120])
            if indent is None and inner_ws:
                # whitespace inside strings is not seen by the parser's ws()
                record('whitespace outside strings with indent=None', model,
                       obj, opts, text[:120])
            if not ea:
                esc = re.findall(r'\\u([0-9a-fA-F]{4})', re.sub(
                    r'\\\\', '', body))
                if any(int(h, 16) >= 0x80 and chr(int(h, 16)).isprintable()
                       for h in esc):
                    record('printable non-ASCII character escaped with '
                           'ensure_ascii=False', model, obj, opts, text[:120])
            if loader is not None and reload_ok and bmp_printable(proj):
                try:
                    back = loader(text)
                    ok = back == obj
                except Exception as ex:      # noqa
                    back, ok = repr(ex), False
                if not ok:
                    record('reload differs', model, obj, opts, back, obj)


STRINGS = ['', 'a', 'café', '\u0080', 'Пр', '\U0001f600',
           'q"\\/', '\n\t\x01', ' x', '1.5', 'true', 'null']
SCALARS = [None, True, False, 0, -7, 1.5, -0.25, 1e20, 1e-7]


class Color(enum.Enum):
    red = 1
    dark_blue = 2


class Plain:
    def __init__(self, a: int, b: str, c: Optional[float] = None) -> None:
        self.a = a
        self.b = b
        self.c = c

    def __eq__(self, o):
        return type(o) is type(self) and vars(o) == vars(self)


class Extra:
    def __init__(self, name: str, _yatiml_extra: OrderedDict) -> None:
        self.name = name
        self._yatiml_extra = _yatiml_extra

    def __eq__(self, o):
        return type(o) is type(self) and self.name == o.name and list(
            self._yatiml_extra.items()) == list(o._yatiml_extra.items())


class Rich:
    def __init__(self, color: Color, path: pathlib.Path, day: datetime.date,
                 items: List[Plain], table: Dict[str, int]) -> None:
        self.color = color
        self.path = path
        self.day = day
        self.items = items
        self.table = table

    def __eq__(self, o):
        return type(o) is type(self) and vars(o) == vars(self)


class Measure:
    """a sweeten hook that writes a null attribute (set_attribute(.., None))"""
    def __init__(self, value: float, unit: Optional[str] = None) -> None:
        self.value = value
        self.unit = unit

    def __eq__(self, o):
        return type(o) is type(self) and vars(o) == vars(self)

    @classmethod
    def _yatiml_sweeten(cls, node: yatiml.Node) -> None:
        if not node.has_attribute('unit'):
            node.set_attribute('unit', None)


def main():
    d_any = yatiml.dumps_json_function()
    # plain trees: depth 0, 1, 2
    leaves = SCALARS + STRINGS
    for x in leaves:
        check_one('plain', d_any, None, x, x)
    for xs in itertools.chain([()], [(x,) for x in leaves],
                              itertools.product(leaves[::3], leaves[1::4])):
        check_one('plain list', d_any, None, list(xs), list(xs))
    for k1 in STRINGS:
        for v in leaves[::2]:
            check_one('plain dict', d_any, None, {k1: v},
                      OrderedDict([(k1, v)]))
    for k1, k2 in itertools.permutations(STRINGS[1:7], 2):
        o = OrderedDict([(k1, [1, k2]), (k2, {k1: None})])
        check_one('plain nested', d_any, None, o, o)
    # typed plain data with reload
    ty = Dict[str, List[Union[str, int, None]]]
    d_ty = yatiml.dumps_json_function()
    l_ty = yatiml.load_function(ty)
    for k in STRINGS:
        for s in STRINGS:
            o = OrderedDict([(k, [s, 3, None])])
            check_one('Dict[str, List[..]]', d_ty, l_ty, o, o)
    # class models
    d_pl = yatiml.dumps_json_function(Plain)
    l_pl = yatiml.load_function(Plain)
    for s in STRINGS:
        for c in (None, 1.5, 1e20):
            o = Plain(3, s, c)
            check_one('Plain', d_pl, l_pl, o, OrderedDict(
                [('a', 3), ('b', s), ('c', c)]))
    d_ex = yatiml.dumps_json_function(Extra)
    l_ex = yatiml.load_function(Extra)
    for s in STRINGS[:8]:
        for ex in (OrderedDict(), OrderedDict([(s or 'k', 1)]),
                   OrderedDict([('z', [s]), ('a', {'n': None})])):
            o = Extra('n' + s, ex)
            check_one('Extra', d_ex, l_ex, o, OrderedDict(
                [('name', 'n' + s)] + list(ex.items())))
    d_ri = yatiml.dumps_json_function(Rich, Plain, Color)
    l_ri = yatiml.load_function(Rich, Plain, Color)
    for color in Color:
        for items in ([], [Plain(1, 'café', 0.5), Plain(2, '', None)]):
            for table in ({}, {'z': 1, 'a': 2}):
                o = Rich(color, pathlib.Path('/tmp/x y'),
                         datetime.date(2020, 2, 29), items, table)
                proj = OrderedDict([
                    ('color', color.name), ('path', '/tmp/x y'),
                    ('day', '2020-02-29'),
                    ('items', [OrderedDict([('a', p.a), ('b', p.b),
                                            ('c', p.c)]) for p in items]),
                    ('table', OrderedDict(table))])
                # known finding D24: a date is dumped as an ISO string, which
                # a date-typed parameter does not accept on loading; the
                # reload clause is therefore not asserted for this model
                check_one('Rich', d_ri, l_ri, o, proj, reload_ok=False)
    d_me = yatiml.dumps_json_function(Measure)
    l_me = yatiml.load_function(Measure)
    for unit in (None, 'm', 'µm'):
        o = Measure(1.5, unit)
        check_one('Measure', d_me, l_me, o, OrderedDict(
            [('value', 1.5), ('unit', unit)]))
    print(json.dumps({'evaluations': evals, 'n_failures': len(failures),
                      'failures': failures[:6]}))


if __name__ == '__main__':
    main()
