"""BOUNDED stand-in (never counted as proved) for the four structural seasoning
transforms of C15 and their inverse laws.  Runs the REAL Node methods under
/venv/bin/python on every generated node and compares with an oracle written
from the documentation / the property statement over ordered dictionaries.

Bound: the attribute holds (a) a sequence of up to 2 items (3 in the thorough
tier), (b) a mapping with up to 2 (3) entries, (c) a scalar, or is missing; items/values are mappings over
the keys {id, val, x} (every subset, values scalars or -- for val -- a small
mapping or sequence) or non-mappings; key attribute `id`,
value attribute in {None, 'val'}; strict in {True, False}.
(The input classes of the repaired defects D13, D14, D18, D19 -- non-mapping
items/values, items lacking the value attribute -- are included.)  Prints a JSON record."""
import copy
import itertools
import json
import os
import sys

import yaml
import yatiml
from yatiml.helpers import Node

WITH_KNOWN = True
# quick: up to 2 items / entries; thorough (VERIF_BOUND=large): up to 3
MAXN = 3 if os.environ.get('VERIF_BOUND') == 'large' else 2


def mk(data):
    """python data (OrderedDict-like lists of pairs) -> yaml node"""
    return yaml.compose(yaml.safe_dump(data, sort_keys=False))


def to_data(node):
    if isinstance(node, yaml.ScalarNode):
        return ('S', node.tag, node.value)
    if isinstance(node, yaml.SequenceNode):
        return ('L', [to_data(x) for x in node.value])
    if isinstance(node, yaml.MappingNode):
        return ('M', [(to_data(k), to_data(v)) for k, v in node.value])
    return ('?',)


def S(v):
    n = mk(v)
    return to_data(n)


def item_variants():
    keys = ['id', 'val', 'x']
    out = []
    for r in range(0, 4):
        for sub in itertools.permutations(keys, r):
            if r == 3 and sub != tuple(keys):
                continue        # one order for the full set is enough
            for valkind in ('scalar', 'mapping', 'sequence'):
                d = {}
                for k in sub:
                    if k == 'id':
                        d[k] = None     # filled per item
                    elif k == 'val':
                        d[k] = {'scalar': 7, 'mapping': {'q': 1},
                                'sequence': ['s1', 's2']}[valkind]
                    else:
                        d[k] = 'xx'
                if valkind != 'scalar' and 'val' not in sub:
                    continue
                out.append(d)
    return out


ITEMS = item_variants()
NONMAP = ['plain', 5, [1]]


def seq_cases():
    pool = ITEMS + (NONMAP if WITH_KNOWN else [])
    for n in range(0, MAXN + 1):
        for combo in itertools.product(range(len(pool)), repeat=n):
            items = []
            for j, ci in enumerate(combo):
                it = copy.deepcopy(pool[ci])
                if isinstance(it, dict) and 'id' in it:
                    it['id'] = 'k%d' % j
                items.append(it)
            yield items
    # duplicate keys
    yield [{'id': 'same', 'x': 'a'}, {'id': 'same', 'x': 'b'}]
    yield [{'id': 'k0', 'x': 'a'}, {'id': 'same'}, {'id': 'same', 'val': 7}]


def map_cases():
    pool = [dict((k, v) for k, v in d.items() if k != 'id') for d in ITEMS]
    uniq = []
    for d in pool:
        if d not in uniq:
            uniq.append(d)
    uniq += [5, 'plain', ['l1', 'l2']]
    for n in range(0, MAXN + 1):
        for combo in itertools.product(range(len(uniq)), repeat=n):
            yield [('k%d' % j, copy.deepcopy(uniq[ci]))
                   for j, ci in enumerate(combo)]


failures = []
evals = 0
skipped = 0


def record(what, inp, got, want):
    failures.append({'transform': what, 'input': inp, 'got': repr(got)[:400],
                     'expected': repr(want)[:400]})


# ------------------------------------------------------------------ oracles
def is_map(d):
    return d[0] == 'M'


def get(d, key):
    for k, v in d[1]:
        if k[0] == 'S' and k[2] == key:
            return v
    return None


def without(d, key):
    return ('M', [(k, v) for k, v in d[1]
                  if not (k[0] == 'S' and k[2] == key)])


def oracle_seq_to_map(root, attr, key, value, strict):
    """-> ('ok', new root) | ('raise', 'SeasoningError') | ('skip', why)"""
    a = get(root, attr)
    if a is None or a[0] != 'L':
        return 'ok', root
    items = a[1]
    if not all(is_map(it) for it in items):
        return 'skip', 'D13'        # documented: silently do nothing
    keys = []
    for it in items:
        kv = get(it, key)
        if kv is None:
            return 'raise', 'SeasoningError'    # key attribute missing
        if not (kv[0] == 'S' and kv[1].endswith(':str')):
            return 'raise', 'SeasoningError'
        keys.append(kv[2])
    if len(set(keys)) != len(keys):
        if strict:
            return 'raise', 'SeasoningError'
        return 'ok', root
    pairs = []
    for it in items:
        k = get(it, key)
        rest = without(it, key)
        if value is not None and len(rest[1]) == 1 and \
                rest[1][0][0][0] == 'S' and rest[1][0][0][2] == value:
            pairs.append((k, rest[1][0][1]))
        else:
            pairs.append((k, rest))
    new = ('M', [(k, (('M', pairs)) if (k[0] == 'S' and k[2] == attr) else v)
                 for k, v in root[1]])
    return 'ok', new


def oracle_map_to_seq(root, attr, key, value):
    a = get(root, attr)
    if a is None or a[0] != 'M':
        return 'ok', root
    if value is None and not all(is_map(v) for _, v in a[1]):
        return 'skip', 'D14'        # not applicable: must stay unchanged
    out = []
    for k, v in a[1]:
        if is_map(v):
            item = ('M', list(v[1]))
        else:
            item = ('M', [(('S', 'tag:yaml.org,2002:str', value), v)])
        # the key is added as an additional attribute (replacing one of the
        # same name, as Node.set_attribute does)
        kn = ('S', 'tag:yaml.org,2002:str', key)
        kv = ('S', 'tag:yaml.org,2002:str', k[2])
        if get(item, key) is not None:
            item = ('M', [(a_, kv if (a_[0] == 'S' and a_[2] == key) else b_)
                          for a_, b_ in item[1]])
        else:
            item = ('M', item[1] + [(kn, kv)])
        out.append(item)
    new = ('M', [(k, ('L', out) if (k[0] == 'S' and k[2] == attr) else v)
                 for k, v in root[1]])
    return 'ok', new


def oracle_index_to_map(root, attr, key, value):
    a = get(root, attr)
    if a is None or a[0] != 'M':
        return 'ok', root
    if not all(is_map(v) for _, v in a[1]):
        return 'skip', 'D18'        # documented: silently do nothing
    pairs = []
    for k, v in a[1]:
        rest = without(v, key)
        if len(rest[1]) == 1 and rest[1][0][0][0] == 'S' and \
                value is not None and rest[1][0][0][2] == value:
            pairs.append((k, rest[1][0][1]))
        else:
            pairs.append((k, rest))
    new = ('M', [(k, ('M', pairs) if (k[0] == 'S' and k[2] == attr) else v)
                 for k, v in root[1]])
    return 'ok', new


def oracle_map_to_index(root, attr, key, value):
    a = get(root, attr)
    if a is None or a[0] != 'M':
        return 'ok', root
    pairs = []
    for k, v in a[1]:
        if not is_map(v) and value is not None:
            v2 = ('M', [(('S', 'tag:yaml.org,2002:str', value), v)])
        else:
            v2 = v
        if is_map(v2):
            v2 = ('M', v2[1] + [(('S', 'tag:yaml.org,2002:str', key),
                                 ('S', k[1], k[2]))])
        pairs.append((k, v2))
    new = ('M', [(k, ('M', pairs) if (k[0] == 'S' and k[2] == attr) else v)
                 for k, v in root[1]])
    return 'ok', new


def shared_node(node, seen=None):
    """a node object reachable at two positions, or None: the transforms
    must hand a TREE on to recognition (A-TREE preservation, the ownership
    condition every contract of this framework relies on: Loader.
    __process_node writes the tag of the recognised type into each node, so
    a node shared between a key and a value position gets one tag for
    both)"""
    seen = seen if seen is not None else {}
    if id(node) in seen:
        return node
    seen[id(node)] = node
    if isinstance(node, yaml.SequenceNode):
        for x in node.value:
            r = shared_node(x, seen)
            if r is not None:
                return r
    elif isinstance(node, yaml.MappingNode):
        for k, v in node.value:
            for x in (k, v):
                r = shared_node(x, seen)
                if r is not None:
                    return r
    return None


def run_one(what, method_args, root_data, oracle):
    global evals, skipped
    node = mk(root_data)
    before = to_data(node)
    verdict, want = oracle(before)
    if verdict == 'skip' and not WITH_KNOWN:
        skipped += 1
        return None
    evals += 1
    n = Node(node)
    try:
        getattr(n, what)(*method_args)
        got = ('ok', to_data(n.yaml_node))
        sh = shared_node(n.yaml_node)
        if sh is not None:
            record(what + repr(method_args) + ' [A-TREE preservation]',
                   root_data, 'node object %r occurs at two positions' % (
                       getattr(sh, 'value', None),), 'a tree')
    except yatiml.SeasoningError:
        got = ('raise', 'SeasoningError')
    except Exception as ex:      # noqa
        got = ('raise', type(ex).__name__)
    if verdict == 'skip':
        # not applicable (mixed / non-mapping entries): the node must be left
        # unchanged; whether the function returns or reports SeasoningError
        # when an earlier entry is ALSO malformed is not specified
        want_cmp = ('ok', before)
        if got == ('raise', 'SeasoningError') and to_data(
                n.yaml_node) == before:
            return got
    else:
        want_cmp = (verdict, want)
    if got != want_cmp:
        record(what + repr(method_args), root_data, got, want_cmp)
    return got


def same_up_to_key_position(a, b, key):
    """equal data, the pair `key` inside each item may sit anywhere"""
    if a[0] != b[0]:
        return False
    if a[0] == 'S':
        return a == b
    if a[0] == 'L':
        return len(a[1]) == len(b[1]) and all(
            same_up_to_key_position(x, y, key) for x, y in zip(a[1], b[1]))
    if a[0] == 'M':
        ka = [p for p in a[1] if not (p[0][0] == 'S' and p[0][2] == key)]
        kb = [p for p in b[1] if not (p[0][0] == 'S' and p[0][2] == key)]
        if len(ka) != len(kb) or len(a[1]) != len(b[1]):
            return False
        if get(a, key) != get(b, key):
            return False
        return all(x[0] == y[0] and same_up_to_key_position(x[1], y[1], key)
                   for x, y in zip(ka, kb))
    return False


def main():
    global evals
    for items in seq_cases():
        for value in (None, 'val'):
            for strict in (True, False):
                root = {'other': 1, 'items': items, 'z': 'z'}
                run_one('seq_attribute_to_map', ('items', 'id', value,
                                                 strict), root,
                        lambda d: oracle_seq_to_map(d, 'items', 'id', value,
                                                    strict))
    for root in ({'other': 1}, {'items': 'scalar'}, {'items': {'a': {'x': 1}}}):
        for m, args in (('seq_attribute_to_map', ('items', 'id')),):
            if isinstance(root.get('items'), dict):
                continue
            run_one(m, args, root, lambda d: ('ok', d))
    for entries in map_cases():
        for value in (None, 'val'):
            root = {'other': 1, 'items': dict(entries), 'z': 'z'}
            run_one('map_attribute_to_seq', ('items', 'id', value), root,
                    lambda d: oracle_map_to_seq(d, 'items', 'id', value))
            run_one('map_attribute_to_index', ('items', 'id', value), root,
                    lambda d: oracle_map_to_index(d, 'items', 'id', value))
    # index_attribute_to_map: values carry the key attribute
    for items in seq_cases():
        if not all(isinstance(it, dict) and 'id' in it for it in items):
            continue
        ents = {'e%d' % j: it for j, it in enumerate(items)}
        for value in (None, 'val'):
            root = {'other': 1, 'items': ents}
            run_one('index_attribute_to_map', ('items', 'id', value), root,
                    lambda d: oracle_index_to_map(d, 'items', 'id', value))
    for root in ({'other': 1}, {'items': 'scalar'}, {'items': [1, 2]}):
        for m in ('map_attribute_to_seq', 'index_attribute_to_map',
                  'map_attribute_to_index'):
            run_one(m, ('items', 'id'), root, lambda d: ('ok', d))
    # inverse laws (statement: up to the position of the key attribute,
    # provided a named value attribute does not itself hold a mapping)
    inv = 0
    for items in seq_cases():
        if not all(isinstance(it, dict) and 'id' in it for it in items):
            continue
        if len({it['id'] for it in items}) != len(items):
            continue
        for value in (None, 'val'):
            if value and any(isinstance(it.get('val'), dict)
                             for it in items):
                continue
            root = {'items': items}
            node = mk(root)
            before = to_data(node)
            n = Node(node)
            n.seq_attribute_to_map('items', 'id', value)
            n.map_attribute_to_seq('items', 'id', value)
            after = to_data(n.yaml_node)
            inv += 1
            if not same_up_to_key_position(before, after, 'id'):
                record('seq_to_map;map_to_seq' + repr(value), root, after,
                       before)
            ents = {'e%d' % j: it for j, it in enumerate(items)}
            # index_attribute_to_map then map_attribute_to_index: the key
            # attribute must spell the entry key for the pair to be inverse
            ents2 = {it['id']: it for it in items}
            node = mk({'items': ents2})
            before = to_data(node)
            n = Node(node)
            n.index_attribute_to_map('items', 'id', value)
            n.map_attribute_to_index('items', 'id', value)
            after = to_data(n.yaml_node)
            inv += 1
            if not same_up_to_key_position(before, after, 'id'):
                record('index_to_map;map_to_index' + repr(value),
                       {'items': ents2}, after, before)
    evals += inv
    # dashes / unders on keys free of the target character
    for ks in (['a_b', 'c', 'd_e_f'], ['a', 'b-c'], []):
        node = mk({k: 1 for k in ks})
        n = Node(node)
        before = to_data(node)
        if all('-' not in k for k in ks):
            n.unders_to_dashes_in_keys()
            n.dashes_to_unders_in_keys()
            evals += 1
            if to_data(n.yaml_node) != before:
                record('unders;dashes', ks, to_data(n.yaml_node), before)
        if all('_' not in k for k in ks):
            n.dashes_to_unders_in_keys()
            n.unders_to_dashes_in_keys()
            evals += 1
            if to_data(n.yaml_node) != before:
                record('dashes;unders', ks, to_data(n.yaml_node), before)
    print(json.dumps({'evaluations': evals, 'skipped_known': skipped,
                      'n_failures': len(failures),
                      'failures': failures[:6]}, default=str))


if __name__ == '__main__':
    main()
