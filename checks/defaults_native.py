"""BOUNDED stand-in (never counted as proved) for
Node.remove_attributes_with_default_values: the real method against the
statement's oracle "removes exactly the defaulted attributes whose value
equals the (overridable) default, never fails on other values".

Bound: one attribute at a time; defaults drawn from the built-in scalar values
below (plus _yatiml_defaults overrides and a non-defaulted parameter); value
spellings drawn from the lists below (every YAML int/float/bool/null/str
spelling family).  Prints a JSON record."""
import json
import yaml
import yatiml
from yatiml.helpers import Node

DEFAULTS = [None, 3, 0, -1, 3.0, 2.5, True, False, 'x', '3', '', 'true']
VALUES = ['3', '0x3', '0o3', '03', '0b11', '3_0', '1:00', '3.0', '3.', '.5',
          '2.5', '3e0', '.inf', '.nan', 'true', 'True', 'false', 'FALSE',
          'null', '~', '', 'x', '"3"', '"true"', "''", '-1', '0', '0.0',
          '"x"', 'yes', '[1]', '{a: 1}']


def constructed(node):
    ld = yatiml.load_function().loader('')
    return ld.construct_object(node, deep=True)


def equal(v, d):
    if isinstance(v, bool) != isinstance(d, bool) and isinstance(
            v, (bool, int, float)) and isinstance(d, (bool, int, float)):
        return None     # tolerance T-BOOL-NUM: 0 vs False is not specified
    if isinstance(v, bool) or isinstance(d, bool):
        return type(v) is type(d) and v == d
    if v is None or d is None:
        return v is None and d is None
    if isinstance(v, str) or isinstance(d, str):
        return isinstance(v, str) and isinstance(d, str) and v == d
    if isinstance(v, (list, dict)):
        return False
    return v == d


def main():
    fails = []
    n = 0
    for d in DEFAULTS:
        for user in (None, 'override'):
            ns = {}
            src = ('class K:\n    def __init__(self, req, a=%r) -> None:\n'
                   '        pass\n' % (d,))
            if user:
                src += '    _yatiml_defaults = {"a": %r, "req": 1}\n' % (d,)
                src = src.replace('a=%r' % (d,), 'a="unrelated"')
            exec(src, ns)
            K = ns['K']
            for text in VALUES:
                for attr in ('a', 'req'):
                    doc = yaml.compose('%s: %s\nother: 1\n' % (attr, text),
                                       Loader=yatiml.load_function().loader)
                    vnode = doc.value[0][1]
                    try:
                        val = constructed(yaml.compose(
                            'v: %s' % text,
                            Loader=yatiml.load_function().loader).value[0][1])
                    except Exception:      # noqa
                        continue
                    eq = equal(val, d)
                    if eq is None:
                        continue
                    want_removed = (attr == 'a') and eq
                    node = Node(doc)
                    n += 1
                    try:
                        node.remove_attributes_with_default_values(K)
                    except Exception as ex:      # noqa
                        fails.append({'default': repr(d), 'value': text,
                                      'attr': attr,
                                      'got': 'exception ' + type(ex).__name__})
                        continue
                    keys = [k.value for k, _ in node.yaml_node.value]
                    removed = attr not in keys
                    if removed != want_removed or 'other' not in keys:
                        fails.append({'default': repr(d), 'value': text,
                                      'attr': attr, 'override': bool(user),
                                      'got': 'removed' if removed
                                      else 'kept', 'expected': 'removed'
                                      if want_removed else 'kept'})
    print(json.dumps({'evaluations': n, 'n_failures': len(fails),
                      'failures': fails[:8]}))


if __name__ == '__main__':
    main()
