"""BOUNDED cross-check of the verifier's encoding against CPython (never
counted as proved): the sidecar contract of a function is evaluated natively
around the REAL function on every combination of small inputs.  A failure on
the unchanged tree means the contract / the engine's model of Python
disagrees with the interpreter (or the code is wrong).

usage: crosscheck_native.py <qual> <param>=<sort key> ...
Bound: PyV values = the scalars None/True/0/1/1.5/''/'a', lists and dicts of
up to two of them (str and int keys), one more nesting level of a few
shapes; Ty = the built-in scalars, bool_union_fix, Any, List/Dict[str, .] of
those (two levels), three unions.  Prints a JSON record."""
import json
import sys

from pyvc import native


def main():
    qual = sys.argv[1]
    inputs = {}
    for a in sys.argv[2:]:
        p, k = a.split('=')
        inputs[p] = {'key': k, 'symbol': '-'}
    m = native.Monitor()
    r = native.replay_search({'function': qual, 'inputs': inputs}, m)
    print(json.dumps({'evaluations': m.evaluations,
                      'failures': [r] if r else [],
                      'n_failures': 1 if r else 0}, default=str))


if __name__ == '__main__':
    main()
