"""C13 - load is invariant under changes that do not alter the meaning"""
from props.recog_common import RECOGNIZER, LOADER, STRIP, LOAD_TRUSTED

PROPERTY = {
    'explanation': 'lemmas and frame conditions over the functional '
    'contracts of the load path (rec, proc_rel): (a) presentation details '
    '(styles, marks) of nodes are never inspected -- a reads-frame obligation '
    'on the real AST -- and the specs the code is verified against are '
    'functions of (kind, tag, value) only; (b) attributes are looked up by '
    'name (has/cnt/at in rec_param and in Node.has_attribute/get_attribute), '
    'never by position; (c) recognition consults the registry only through '
    'set union over registered direct subclasses and tag lookup; (d) List/'
    'Sequence/MutableSequence and Dict/Mapping/MutableMapping are identical '
    'type terms for every helper (bounded stand-in); (e) adding '
    'bool_union_fix to a Union containing bool is neutral (lemma, proved).  '
    '(a), (d), (e) and the functional contracts are decided here; (b), (c) '
    'and the re-serialisation facts (E-TEXT: same node tags after '
    're-serialising) are arguments over those contracts, stated not '
    'mechanised.',
    'trusted': LOAD_TRUSTED + ['E-TEXT: PyYAML parse is independent of '
                               'block/flow/quoting style up to node tags, '
                               'kinds and values'],
    'assumptions': [],
}


def check(run):
    from checks.main import reflection_bounded
    from checks import gluechecks as GC
    reflection_bounded(run)
    run.verify_functions(RECOGNIZER + LOADER + STRIP)
    ctx = GC.Ctx(run, 'C13')
    GC.read_frame(ctx)
