"""C05 - loading what was dumped gives back an equal object (YAML round trip)"""
import re
import time
import z3
from checks import langs
from checks.main import Item
from props import C09

T = langs.TAG
R = 'yatiml/representers.py::'
C = 'yatiml/constructors.py::'
PROPERTY = {
    'explanation': 'three layers (DESIGN 7.5), claimed separately.  (1) '
    'SCALAR TEXT LAYER, decided for strings of every length on the resolver '
    'tables the real Loader and Dumper build: every string the loader would '
    'type as something other than str is one PyYAML\'s emitter must quote '
    '(per first-character bucket), and the images of represent_float/int/'
    'bool/none lie in the loader language of the same tag.  (2) COMPONENT '
    'LAWS, by contract: the enum / string-like / Path representers build a '
    'str scalar holding the member name / str(), and the matching '
    'constructors rebuild the member of that name / cls(text) / Path(text); '
    'sweeten and savorize hooks run in mirrored order (C10).  (3) the '
    'WHOLE-PIPELINE composition (Representer.__call__, Constructor.__call__, '
    'default-value sweetening, shared sub-objects) is NOT mechanised.',
    'trusted': C09.PROPERTY['trusted'] + [
        'E-EMIT: PyYAML writes a str scalar plain only if its own resolve() '
        'says str (and the text has no special characters)',
        'E-REPRESENT: grammars of the SafeRepresenter scalar images '
        '(repr(float).lower() with .0 insertion, str(int), true|false, null)',
        'E-TEXT: emit then parse is the identity on node structure',
        'string-like classes round-trip through str() (the user\'s '
        'obligation)'],
    'assumptions': ['objects referenced more than once need C18 (not '
                    'decidable here)'],
}


def bucket_union(table, c):
    tbl = dict(table)
    pats = list(tbl.get(c, [])) + list(tbl.get(None, []))
    rs = [langs.mlang(p, f) for (_, p, f) in pats]
    if not rs:
        return z3.Empty(z3.ReSort(z3.StringSort()))
    u = rs[0] if len(rs) == 1 else z3.Union(*rs)
    dom = z3.Re(z3.StringVal('')) if c == '' else langs.starts_with(c)
    return z3.Intersect(dom, u)


def check(run):
    from checks.main import defaults_bounded, transforms_bounded
    defaults_bounded(run)      # default-value sweetening (bounded)
    # the structural transforms and their inverse laws, and that they hand a
    # TREE on (A-TREE preservation): bounded
    transforms_bounded(run)
    raw = langs.native_tables(run.repo)
    for k, want in C09.PYYAML_PINS.items():
        if raw[k] != want:
            run.broken.append('PyYAML differs from the pinned one (%s)' % k)
    L, D = raw['loader'], raw['dumper']

    def real_both(w):
        r = langs.native_resolve(run.repo, [('loader', w), ('dumper', w)])
        ok = r[0]['tag'] != T + 'str' and r[1]['tag'] == T + 'str'
        return ok, {'text': w, 'loader': r[0], 'dumper_resolves_to':
                    r[1]['tag']}
    for c in [k for k, _ in L if k is not None]:
        a = bucket_union(L, c)
        b = bucket_union(D, c)
        t0 = time.time()
        v, w = langs.relang.included(a, b, None, 20 if run.tier == 'quick'
                                     else 120, backends=('z3new', 'z3cli', 'cvc5'))
        dt = time.time() - t0
        g = 'C05::quoting::bucket-%s' % (
            'empty' if c == '' else 'U+%04X' % ord(c))
        label = ('every string starting with %r that the loader table types '
                 'as something other than str is also non-str for the '
                 'dumper table (so the emitter quotes it)' % c)
        if v is True:
            run.add(Item(g, 'lang', label, 'discharged', 'z3-4.8.12/cvc5',
                         dt, props=['C05']))
        elif v is False:
            ok, detail = real_both(w)
            it = Item(g, 'lang', label, 'refuted', '', dt, props=['C05'])
            it.witness = {'obligation': g, 'label': label, 'kind': 'native',
                          'witness_string': w, 'validated': ok,
                          'verdict': {'reproduced': ok, 'detail': detail}}
            run.add(it)
        else:
            run.add(Item(g, 'lang', label, 'unknown', '', dt, note=str(w)))
    # images of the scalar representers lie in the loader language
    images = {
        'float': '(?:-?[0-9]+\\.[0-9]+(?:e[-+][0-9]+)?|-?\\.inf|\\.nan)',
        'int': '-?(?:0|[1-9][0-9]*)',
        'bool': '(?:true|false)',
        'null': 'null',
    }
    for short, pat in images.items():
        img = langs.relang.fullmatch_lang(pat, 0)
        lang = langs.resolve_lang(L, T + short)

        def v_img(w, short=short):
            r = langs.native_resolve(run.repo, [('loader', w)])[0]
            return r['tag'] != T + short, {'text': w, 'loader': r}
        C09.lang_ob(run, 'C05::image::%s' % short,
                    'every text SafeRepresenter writes for a %s is typed %s '
                    'by the loader table' % (short, short), img, lang, v_img,
                    domain=None)
    run.verify_functions([R + 'EnumRepresenter.__call__',
                          R + 'UserStringRepresenter.__call__',
                          R + 'PathRepresenter.__call__',
                          R + 'Representer.__sweeten',
                          C + 'EnumConstructor.__call__',
                          C + 'UserStringConstructor.__call__',
                          C + 'PathConstructor.__call__',
                          'yatiml/loader.py::Loader.__savorize'],
                         lemmas=False)
