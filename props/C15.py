"""C15 - structural seasoning transforms: inverse pairs, no-ops when not
applicable"""
H = 'yatiml/helpers.py::Node.'

PROPERTY = {
    'level': 'other',
    'explanation': 'two parts.  PROVED (pyvc): unders_to_dashes_in_keys / '
    'dashes_to_unders_in_keys rewrite exactly the key texts (every pair, '
    'values and everything else untouched), for mappings of any size.  '
    'BOUNDED (labelled bounded, not counted as proved): the four structural '
    'transforms and their inverse laws are compared, on an exhaustively '
    'enumerated family of small nodes, with an oracle over ordered '
    'dictionaries written from the documentation; their loops rebuild '
    'nested nodes through several aliases and were not brought under '
    'contract.  Four defects found this way are repaired in /repo (D13, '
    'D14, D18, D19).',
    'trusted': ['E-REPLACE: str.replace for single characters (inverse on '
                'strings free of the target character) - bounded check',
                'A-TREE, A-LIST'],
    'assumptions': [],
}


def check(run):
    from checks.main import transforms_bounded
    run.verify_functions([H + 'unders_to_dashes_in_keys',
                          H + 'dashes_to_unders_in_keys',
                          H + 'has_attribute', H + 'get_attribute',
                          H + 'set_attribute', H + 'remove_attribute',
                          H + 'is_mapping', H + 'is_sequence'])
    transforms_bounded(run)
