"""C15 - structural seasoning transforms: inverse pairs, no-ops when not
applicable"""
H = 'yatiml/helpers.py::Node.'

PROPERTY = {
    'level': 'other',
    'explanation': 'two parts.  PROVED (pyvc), for mappings of any size: '
    'unders_to_dashes_in_keys / dashes_to_unders_in_keys rewrite exactly the '
    'key texts (every pair, values and everything else untouched); '
    'map_attribute_to_index, index_attribute_to_map and seq_attribute_to_map '
    'compute exactly the documented mapping (m2i_pairs / i2m_pairs / '
    's2m_pairs: same keys / items in the same order, each value extended by '
    '/ stripped of the key attribute, short form expanded / collapsed), '
    'change nothing else of the node, do nothing at all when not '
    'applicable, and report duplicate keys only in strict mode.  BOUNDED '
    '(labelled bounded, not counted as proved): map_attribute_to_seq and the '
    'inverse laws of all four are compared, on an exhaustively enumerated '
    'family of small nodes, with an oracle over ordered dictionaries written '
    'from the documentation, together with A-TREE preservation.  Four '
    'defects found this way are repaired in /repo (D13, D14, D18, D19).',
    'trusted': ['E-REPLACE: str.replace for single characters (inverse on '
                'strings free of the target character) - bounded check',
                'A-TREE, A-LIST',
                'A-DETACH: Node.remove_attribute does not modify the node it '
                'removes (verified body: filter comprehension); a reference '
                'the caller holds to it keeps the pre-call value'],
    'assumptions': [],
}


def check(run):
    from checks.main import transforms_bounded
    run.verify_functions([H + 'unders_to_dashes_in_keys',
                          H + 'dashes_to_unders_in_keys',
                          H + 'has_attribute', H + 'get_attribute',
                          H + 'set_attribute', H + 'remove_attribute',
                          H + 'is_mapping', H + 'is_sequence',
                          H + 'map_attribute_to_index',
                          H + 'index_attribute_to_map',
                          H + 'seq_items',
                          H + 'seq_attribute_to_map'])
    transforms_bounded(run)
    from checks.main import nodecross_bounded
    nodecross_bounded(run, only=['Node.unders_to_dashes_in_keys', 'Node.dashes_to_unders_in_keys', 'Node.map_attribute_to_index', 'Node.index_attribute_to_map', 'Node.seq_attribute_to_map'])
