"""C02 - load accepts exactly what the documented pipeline admits"""
from props.recog_common import RECOGNIZER, LOADER, STRIP, CONSTR, LOAD_TRUSTED

PROPERTY = {
    'explanation': 'functional contracts: Recognizer.* compute exactly the '
    'documented recognition function rec(node, type) (built-ins by exact '
    'tag, lists/dicts element-wise, classes by presence and recognisability '
    'of required parameters with dashed fallback, duplicates rejected); '
    '__process_node returns normally only if exactly one type is recognised '
    'at every visited node and produces the documented node (proc_rel).  The '
    'converse direction (admitted => no error) and the bottom-up value are '
    'argued from the same contracts but not mechanised.',
    'trusted': LOAD_TRUSTED,
    'assumptions': ['T-LIST-FIRST'],
}


def check(run):
    from checks.main import reflection_bounded, transforms_bounded
    reflection_bounded(run)
    from checks.main import load_bounded
    load_bounded(run)
    # A-TREE preservation of the seasoning transforms (what _yatiml_savorize
    # hands on to recognition is a tree): bounded stand-in
    transforms_bounded(run)
    run.verify_functions(RECOGNIZER + LOADER + STRIP + CONSTR)
