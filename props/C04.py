"""C04 - a document cannot cause construction the type model does not call for"""
from props.recog_common import RECOGNIZER, LOADER, STRIP, CONSTR, LOAD_TRUSTED

PROPERTY = {
    'explanation': 'strip_tags leaves a plain subtree (core tags only, seq/'
    'map on collections) for every input tree; __process_node overwrites the '
    'tag of every node with the tag of the type recognised AT THAT POSITION '
    'and strips below Any; Constructor.__strip_extra_attributes makes every '
    'value below a non-parameter key plain and rejects non-str keys, and '
    'Constructor.__call__ is verified to do that before anything is '
    'constructed from the node; the '
    'recogniser only ever returns registered concrete classes.',
    'trusted': LOAD_TRUSTED + [
        'E-SAFE: yaml.SafeLoader constructs only plain data for core tags '
        'and raises for unknown tags'],
    'assumptions': [],
}


def check(run):
    from checks.main import reflection_bounded, splitoff_bounded
    reflection_bounded(run)
    splitoff_bounded(run)
    run.verify_functions(STRIP + CONSTR + LOADER + RECOGNIZER)
