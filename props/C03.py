"""C03 - polymorphic positions resolve to the unique most-derived match"""
from props.recog_common import RECOGNIZER, TRUSTED

PROPERTY = {
    'explanation': 'every function of the recognizer is verified against the '
    'declarative recognition spec rec(node, type) written from the '
    'statement: candidates = most-derived registered concrete matches below '
    'the expected class, union = union of member matches with bool_union_fix '
    'collapsed, explicit tag selects / rejects; for all node trees, class '
    'tables and registries (loops by invariant, recursion by contract).',
    'trusted': TRUSTED,
    'assumptions': ['T-TAG-PARENT, T-LIST-FIRST tolerances (DESIGN 4.1)'],
}


def check(run):
    from checks.main import reflection_bounded
    reflection_bounded(run)
    run.verify_functions(RECOGNIZER + [
        'yatiml/loader.py::Loader.__process_node'])
