"""C08 - bad input is reported only as RecognitionError or a YAML error"""
import re
from props.recog_common import RECOGNIZER, LOADER, STRIP, CONSTR, LOAD_TRUSTED
from props import C09
from checks import langs

T = langs.TAG
PROPERTY = {
    'explanation': 'exceptional postconditions: every function on the load '
    'path (recognizer, loader, strip_tags, constructors) is verified to let '
    'only RecognitionError (and YAMLError at PyYAML calls) escape -- every '
    'implicit raise of a primitive (index, key, unpacking, int()/float(), '
    'next(), kind confusion on node.value, user hooks/constructors) is an '
    'obligation; plus, for ALL strings (also quoted scalars that strip_tags '
    're-resolves), whatever the loader table resolves to float/bool lies in '
    'the domain of the PyYAML constructor that then runs.',
    'trusted': LOAD_TRUSTED + C09.PROPERTY['trusted'],
    'assumptions': ['bounded nesting (no RecursionError) and tree-shaped '
                    'documents (A-TREE) as the statement says; explicit core '
                    'tags with invalid content (!!float x) are PyYAML\'s own '
                    'constructors raising ValueError - see known finding D10'],
}


def check(run):
    from checks.main import reflection_bounded, splitoff_bounded
    reflection_bounded(run)
    splitoff_bounded(run)
    run.verify_functions(RECOGNIZER + LOADER + STRIP + CONSTR)
    raw = langs.native_tables(run.repo)
    table = raw['loader']
    fl = langs.resolve_lang(table, T + 'float')
    bo = langs.resolve_lang(table, T + 'bool')

    def real(text):
        return langs.native_resolve(run.repo, [('loader', text)])[0]

    def v_dom(w):
        r = real(w)
        return 'exception' in r, {'text': w, 'real': r}
    dom = langs.relang.fullmatch_lang(
        '[-+]?(?:\\.inf|\\.nan|' + langs.PYFLOAT + ')', re.I)
    nocolon = langs.relang.fullmatch_lang('[^_:]*', 0)
    C09.lang_ob(run, 'C08::float::all-strings::no-underscore-or-colon',
                'any string (plain or quoted) resolved to float contains '
                'neither _ nor :', fl, nocolon, v_dom, domain=None)
    C09.lang_ob(run, 'C08::float::all-strings::within-constructor-domain',
                'any string (plain or quoted) resolved to float is in the '
                'domain of construct_yaml_float', fl, dom, v_dom, domain=None)
    C09.lang_ob(run, 'C08::bool::all-strings::within-constructor-domain',
                'any string (plain or quoted) resolved to bool is a key of '
                'bool_values after lower()', bo,
                langs.relang.fullmatch_lang(
                    '(?:yes|no|true|false|on|off)', re.I), v_dom, domain=None)
