"""C09 - plain scalars are typed by YAML 1.2 rules for booleans and floats.

The resolver table is the one the REAL Loader.__init__ (__patch_floats,
__patch_bools) builds, obtained by running that code natively on every run.
For that table the obligations quantify over ALL strings (automata-level
decision by z3's / cvc5's regular-expression theories), with PyYAML's
resolve() semantics (bucket of the first character, first match wins, prefix
match) encoded in the language computation."""
import re
import time

from checks import langs
from checks.main import Item, Bounded

T = langs.TAG
PROPERTY = {
    'explanation': 'language equality/inclusion obligations between the '
    'resolver table built by the real code and the YAML 1.2 core schema '
    'written from the specification; decided for strings of every length.',
    'trusted': [
        'E-RESOLVE: BaseResolver.resolve semantics (source digest pinned)',
        'E-CONSTRUCT-FLOAT/BOOL: SafeConstructor.construct_yaml_float/bool '
        'semantics (source digests pinned)',
        'PYFLOAT: grammar of CPython float() literals',
        'E-FLOATSIGN: sign * float(lower(unsigned)) == float(signed)',
        'relang: translation of Python re syntax to SMT regular expressions '
        '(self-tested against re on enumerated strings)',
        'SMT alphabet: code points <= 0x2FFFF (lifting argument in relang)',
    ],
    'assumptions': ['E-PLAIN: a plain scalar value is empty or has no blank '
                    'or line break at either end',
                    'T-NAN-SIGN: +.nan / -.nan accepted as float or not '
                    '(statement is silent)'],
}

PYYAML_PINS = {'yaml_version': '6.0.3', 'resolve_src_sha': '61e5156c35cd2ce6',
               'construct_float_sha': 'c500e30e83ad28ab',
               'construct_bool_sha': '363d8da62e9bd3c7'}


def lang_ob(run, group, label, r1, r2, validate, timeout=None, domain='plain'):
    """obligation L(r1) & domain <= L(r2); validate(w) -> (reproduced, detail)
    The default domain is E-PLAIN: the values a plain scalar can have (empty,
    or no blank/line break at either end) -- the property speaks about
    untagged plain scalars; quoted scalars re-resolved by strip_tags are
    C08's business."""
    dom = langs.plain_domain() if domain == 'plain' else None
    v, w, dt, backend = langs.decide_included(
        r1, r2, dom, timeout or (20 if run.tier == 'quick' else 120))
    if v is True:
        run.add(Item(group, 'lang', label, 'discharged', backend or '', dt,
                     props=['C09']))
    elif v is False:
        ok, detail = validate(w)
        it = Item(group, 'lang', label, 'refuted', backend or '', dt,
                  props=['C09'])
        it.witness = {'obligation': group, 'label': label, 'kind': 'native',
                      'witness_string': w, 'validated': ok,
                      'verdict': {'reproduced': ok, 'detail': detail}}
        run.add(it)
    else:
        run.add(Item(group, 'lang', label, 'unknown', '', dt, note=str(w)))


def check(run):
    raw = langs.native_tables(run.repo)
    for k, want in PYYAML_PINS.items():
        if raw[k] != want:
            run.broken.append('PyYAML differs from the pinned one (%s = %s): '
                              'the hand-encoded semantics of resolve/'
                              'construct_yaml_* must be re-derived' % (k, raw[k]))
    table = raw['loader']
    fl = langs.resolve_lang(table, T + 'float')
    bo = langs.resolve_lang(table, T + 'bool')

    def real(text):
        return langs.native_resolve(run.repo, [('loader', text)])[0]

    def v_is(tag, upper_pat):
        # witness: code says `tag` although the oracle does not admit it
        def f(w):
            r = real(w)
            ok = r['tag'] == tag and not re.fullmatch(upper_pat, w)
            return ok, {'text': w, 'real_resolve': r, 'oracle': 'not a YAML '
                        '1.2 %s' % tag.rsplit(':', 1)[1]}
        return f

    def v_not(tag, lower_pat):
        def f(w):
            r = real(w)
            ok = r['tag'] != tag and bool(re.fullmatch(lower_pat, w))
            return ok, {'text': w, 'real_resolve': r, 'oracle': 'is a YAML '
                        '1.2 %s' % tag.rsplit(':', 1)[1]}
        return f

    up = '(?:%s|%s|%s)' % (langs.L12_NUM, langs.L12_INF, langs.L12_NAN_SIGNED)
    lo = '(?:%s|%s|%s)' % (langs.L12_NUM, langs.L12_INF, langs.L12_NAN)
    lang_ob(run, 'C09::float::code-within-yaml12',
            'every string the loader table resolves to float is a YAML 1.2 '
            'core float', fl, langs.float12_upper(), v_is(T + 'float', up))
    lang_ob(run, 'C09::float::yaml12-within-code',
            'every YAML 1.2 core float resolves to float', 
            langs.float12_lower(), fl, v_not(T + 'float', lo))
    lang_ob(run, 'C09::bool::code-within-yaml12',
            'every string the loader table resolves to bool is one of '
            'true/True/TRUE/false/False/FALSE', bo, langs.bool12(),
            v_is(T + 'bool', langs.L12_BOOL))
    lang_ob(run, 'C09::bool::yaml12-within-code',
            'true/True/TRUE/false/False/FALSE resolve to bool',
            langs.bool12(), bo, v_not(T + 'bool', langs.L12_BOOL))

    # integer, null, timestamp (and merge/value) typing is PyYAML's
    for t in langs.all_tags(raw['pyyaml']):
        if t in (T + 'float', T + 'bool'):
            continue
        a = langs.resolve_lang(table, t)
        b = langs.resolve_lang(raw['pyyaml'], t)
        short = t.rsplit(':', 1)[1]

        def vd(w, t=t):
            r = real(w)
            import json as _j
            return True, {'text': w, 'loader_resolve': r,
                          'note': 'loader and pristine PyYAML tables '
                          'disagree on tag ' + t}
        lang_ob(run, 'C09::%s::loader-within-pyyaml' % short,
                '%s typing is PyYAML\'s (loader table adds nothing)' % short,
                a, b, vd)
        lang_ob(run, 'C09::%s::pyyaml-within-loader' % short,
                '%s typing is PyYAML\'s (loader table loses nothing)' % short,
                b, a, vd)

    # resolve agrees with construct: domain of construct_yaml_float on
    # strings free of '_' and ':' (none in a resolved float, proved first):
    # value.lower(), optional sign stripped, '.inf' | '.nan' | float(value)
    nocolon = langs.relang.fullmatch_lang('[^_:]*', 0)
    lang_ob(run, 'C09::float::no-underscore-or-colon',
            'a resolved float contains neither _ nor : (so the sexagesimal '
            'and underscore branches of construct_yaml_float are unreachable)',
            fl, nocolon, lambda w: (True, {'text': w, 'real': real(w)}))
    dom = langs.relang.fullmatch_lang(
        '[-+]?(?:\\.inf|\\.nan|' + langs.PYFLOAT + ')', re.I)

    def v_dom(w):
        r = real(w)
        return 'exception' in r, {'text': w, 'real': r}
    lang_ob(run, 'C09::float::resolved-within-constructor-domain',
            'every string resolved to float is in the domain of '
            'construct_yaml_float (no ValueError)', fl, dom, v_dom)
    # bool: the language was proved equal to a finite set; its members are in
    # bool_values after lower() (finite check on the real table)
    members = ['true', 'True', 'TRUE', 'false', 'False', 'FALSE']
    t0 = time.time()
    res = langs.native_resolve(run.repo, [('loader', m) for m in members])
    bad = [(m, r) for m, r in zip(members, res)
           if r.get('type') != 'bool' or r.get('value') != repr(
               m.lower() == 'true')]
    it = Item('C09::bool::constructed-value', 'table',
              'each of the six YAML 1.2 booleans constructs the matching '
              'Python bool (finite set, checked on the real constructor)',
              'refuted' if bad else 'discharged', 'native-enumeration',
              time.time() - t0, props=['C09'])
    if bad:
        it.witness = {'kind': 'native', 'validated': True,
                      'verdict': {'reproduced': True, 'detail': bad}}
    run.add(it)
    keys = [k for k, _ in table]
    ok_keys = all((m.lower() in raw['bool_values']) for m in members)
    run.add(Item('C09::bool::lower-in-bool_values', 'table',
                 'lower() of each YAML 1.2 boolean is a key of '
                 'SafeConstructor.bool_values', 'discharged' if ok_keys
                 else 'refuted', 'native-enumeration', 0.0))

    # bounded stand-in (never counted as proved): end to end over short
    # strings of the number/boolean alphabet through the real load function
    bounded_end_to_end(run, up, lo)


def bounded_end_to_end(run, up, lo):
    import itertools
    import json
    import subprocess
    import os
    alpha = '0123456789.eE+-_:tTrRuUfFaAlLsSyYnNoOiI'
    n = 3 if run.tier == 'quick' else 4
    code = r'''
import json, sys, re, itertools, yaml, yatiml
alpha, n, up, boolp = json.load(sys.stdin)
f = yatiml.load_function()
bad = []; cnt = 0
extra = ['true','True','TRUE','false','False','FALSE','yes','no','on','off',
  'trueish','1.2.3','1e5x','1_000.5','1:30.5','.inf','-.INF','.nan','+.nan',
  '1e5','1.','.5','1.e3','0.E+0','~','null','2001-01-01','0x1F','017']
def words():
    for k in range(1, n + 1):
        for tup in itertools.product(alpha, repeat=k):
            yield ''.join(tup)
    for w in extra: yield w
for w in words():
    try:
        v = f(w)
    except yaml.YAMLError:
        continue
    except yatiml.RecognitionError:
        continue
    except Exception as ex:
        bad.append([w, 'exception ' + type(ex).__name__]); continue
    cnt += 1
    isf = bool(re.fullmatch(up, w)); isb = bool(re.fullmatch(boolp, w))
    if isinstance(v, bool) != isb or (isinstance(v, float) != isf):
        bad.append([w, repr(v)])
    elif isf and not w.lstrip('+-').lower().startswith('.') and v == v and float(w) != v:
        bad.append([w, 'value %r != float()' % v])
print(json.dumps({'evaluations': cnt, 'bad': bad[:5]}))
'''
    env = dict(os.environ)
    env['PYTHONPATH'] = run.repo
    p = subprocess.run(['/venv/bin/python', '-c', code], env=env,
                       input=json.dumps([alpha, n, up, langs.L12_BOOL]),
                       stdout=subprocess.PIPE, stderr=subprocess.PIPE,
                       text=True, timeout=1800)
    if p.returncode != 0:
        run.broken.append('bounded end-to-end run failed: ' + p.stderr[-500:])
        return
    r = json.loads(p.stdout)
    run.bounded.append(Bounded(
        'plain-scalar-end-to-end', 'all strings of length <= %d over %r plus '
        'a fixed list, loaded with load_function()' % (n, alpha),
        r['evaluations'], [{'text': w, 'got': g} for w, g in r['bad']]))
