"""C11 - load and dump functions are stateless, isolated, PyYAML untouched"""
from checks import gluechecks as GC
from checks import langs
from checks.main import Item

PROPERTY = {
    'explanation': 'frame conditions on the effect/ownership summaries of '
    'every function reachable from load_function / dump*_function / '
    'Loader.__init__ / Dumper.__init__: each store (attribute, item, '
    'in-place mutation, add_constructor/add_representer) goes to an object '
    'created in that very call, to the per-call Loader/Dumper instance (and '
    'objects its __init__ made for it), or to the class made for this load/'
    'dump function; class-level defaults that are written through are None; '
    'no mutable class attributes; import-time registration lands on '
    'yatiml.Dumper.  History independence and isolation follow: results are '
    'functions of the arguments and of state nobody writes.  Plus a native '
    'comparison of yaml.SafeLoader\'s resolver table before/after.',
    'trusted': ['E-ADDCONSTRUCTOR: PyYAML add_constructor/add_representer '
                'copy the class-level table on first write to a subclass',
                'E-GIL + thread confinement of PyYAML loader/dumper '
                'instances: NO interleaving is explored; the claim for '
                'threads is only the frame argument',
                'pyvc.glue abstract interpretation'],
    'assumptions': [],
}


def check(run):
    ctx = GC.Ctx(run, 'C11')
    GC.frames(ctx)
    raw = langs.native_tables(run.repo)
    run.add(Item('C11::pyyaml-table-untouched', 'table',
                 'after creating and instantiating a yatiml loader, '
                 'yaml.SafeLoader\'s implicit resolver table still equals '
                 'PyYAML\'s pristine one, and the patched table lives on '
                 'the loader instance',
                 'discharged' if raw['class_table_untouched'] and
                 raw['loader_is_instance_table'] else 'refuted',
                 'native-comparison', 0.0))
