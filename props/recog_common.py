R = 'yatiml/recognizer.py::Recognizer.'
RECOGNIZER = [R + m for m in (
    '__recognize_scalar', '__recognize_additional', '__recognize_list',
    '__recognize_dict', '__recognize_union', '__recognize_user_class',
    '__recognize_user_classes', 'recognize')]
TRUSTED = [
    'CLASS-MODEL: expected types are well formed over a closed class model '
    '(every class used in an annotation is registered; dict keys are '
    'string-like classes)',
    'H-REC: _yatiml_recognize hooks return or raise RecognitionError, are '
    'deterministic and leave the node unchanged',
    'reflection helpers (is_generic_*, generic_type_args, is_string_like, '
    'is_abstract, class_subobjects) by assumed contract - bounded stand-in',
    'message helpers type_to_desc/cjoin/diagnose_missing_key are pure '
    '(verified separately under C08/C17)',
    'termination of the recursion over the class hierarchy (Python class '
    'hierarchies are acyclic) and over the node tree (A-TREE)',
    'A-TREE, A-LIST',
]
