R = 'yatiml/recognizer.py::Recognizer.'
RECOGNIZER = [R + m for m in (
    '__recognize_scalar', '__recognize_additional', '__recognize_list',
    '__recognize_dict', '__recognize_union', '__recognize_user_class',
    '__recognize_user_classes', 'recognize')]
TRUSTED = [
    'CLASS-MODEL: expected types are well formed over a closed class model '
    '(every class used in an annotation is registered; dict keys are '
    'string-like classes)',
    'H-REC: _yatiml_recognize hooks return or raise RecognitionError, are '
    'deterministic and leave the node unchanged',
    'reflection helpers (is_generic_*, generic_type_args, is_string_like, '
    'is_abstract, class_subobjects) by assumed contract - bounded stand-in',
    'message helpers type_to_desc/cjoin/diagnose_missing_key are pure '
    '(verified separately under C08/C17)',
    'termination of the recursion over the class hierarchy (Python class '
    'hierarchies are acyclic) and over the node tree (A-TREE)',
    'A-TREE, A-LIST',
]

L = 'yatiml/loader.py::Loader.'
LOADER = [L + m for m in ('__type_to_tag', '__savorize', '__process_node',
                          'get_single_node')]
STRIP = ['yatiml/util.py::strip_tags']
C = 'yatiml/constructors.py::'
CONSTR = [C + 'Constructor.__strip_extra_attributes',
          C + 'Constructor.__type_matches',
          C + 'Constructor.__check_no_missing_attributes',
          C + 'Constructor.__type_check_attributes',
          C + 'Constructor.__call__',
          C + 'EnumConstructor.__call__',
          C + 'UserStringConstructor.__call__',
          C + 'PathConstructor.__call__']
LOAD_TRUSTED = TRUSTED + [
    'H-SAV: _yatiml_savorize hooks may replace the node by any node or '
    'raise SeasoningError; deterministic',
    'H-NEW: string-like constructors / __init__ may raise anything',
    'E-COMPOSE: PyYAML parse+compose yields YAMLError, no document, or a '
    'node tree of Scalar/Sequence/Mapping nodes',
    'E-CONSTRUCT: PyYAML constructs by node tag; SafeConstructor scalar '
    'constructors return the kind of their tag',
    'E-RESOLVE-CORE: resolve() returns core-schema tags',
    'prefix/append locality of index-recursive spec functions '
    '(meta-theorem of the spec language)',
    'E-ARGSPEC: inspect.getfullargspec(C.__init__) is a function of the '
    'class, its first argument is named self (bounded stand-in links it to '
    'class_subobjects)',
    'E-DICT: a key of a constructed dict equals a str only if it is that '
    'str; E-ISINSTANCE: isinstance(obj, C) for user classes is an '
    'uninterpreted relation (exact for str/int/float/bool/None/list/dict)',
    'Constructor.__split_off_extra_attributes by assumed contract (returns a '
    'dict) - bounded stand-in; the exact contents of the dict handed to '
    '__init__ when the class takes _yatiml_extra are therefore bounded-only',
]
