"""C16 - UnknownNode.require_* accept exactly the nodes they describe"""
from props.recog_common import RECOGNIZER, TRUSTED
U = 'yatiml/helpers.py::UnknownNode.'
N = 'yatiml/helpers.py::Node.'
TARGETS = [U + m for m in (
    'require_mapping', 'require_sequence', 'require_scalar',
    'require_attribute', 'require_attribute_value',
    'require_attribute_value_not')] + [N + 'is_scalar', N + 'get_value']

PROPERTY = {
    'explanation': 'each require_* helper is verified with an if-and-only-if '
    'contract: RecognitionError is raised exactly when the documented '
    'condition fails, no other exception, and -- there being no modifies '
    'clause -- the node is proved unchanged.  require_attribute(a, T) is '
    'specified through the contract of Recognizer.recognize itself (rec), so '
    '"the rules the loader itself uses" is literal; the recognizer is '
    'verified to be pure after the D3 repair.',
    'trusted': TRUSTED + [
        'E-CONSTRUCT: SafeConstructor scalar constructors as uninterpreted '
        '(domain, value) pairs; scalar texts of implicitly typed scalars lie '
        'in the domain (C09 + PyYAML tables); explicit core tag on garbage '
        'is known finding D10',
    ],
    'assumptions': ['for require_attribute_value(_not) with a key present '
                    'more than once the contract follows the scan order of '
                    'the code; the statement only speaks of distinct keys'],
}


def check(run):
    from checks.main import reflection_bounded
    reflection_bounded(run)
    run.verify_functions(TARGETS + RECOGNIZER)
    from checks.main import nodecross_bounded
    nodecross_bounded(run, only=['UnknownNode.require_mapping', 'UnknownNode.require_sequence', 'UnknownNode.require_attribute_value', 'UnknownNode.require_attribute_value_not'])
