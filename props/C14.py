"""C14 - yatiml.Node accessors behave like an ordered map and a typed scalar"""
H = 'yatiml/helpers.py::Node.'
TARGETS = [H + m for m in (
    '__attr_index', 'has_attribute', 'get_attribute', 'set_attribute',
    'remove_attribute', 'rename_attribute', 'is_mapping', 'is_sequence',
    'is_scalar', 'is_empty', 'make_mapping', 'set_value', 'get_value',
    'seq_items', 'has_attribute_type')]

PROPERTY = {
    'explanation': 'every Node accessor is verified against an ordered-'
    'dictionary view of the mapping node: the postconditions speak about the '
    'whole pair list, for mapping nodes of any size (loops by invariant).',
    'trusted': ['E-STRINT', 'A-TREE', 'A-LIST'],
    'assumptions': [],
}


def check(run):
    from checks.main import reflection_bounded, defaults_bounded
    run.verify_functions(TARGETS)
    # remove_attributes_with_default_values / defaulted_attributes depend on
    # inspect and on arbitrary default objects: bounded stand-ins
    reflection_bounded(run)
    defaults_bounded(run)
    from checks.main import nodecross_bounded
    nodecross_bounded(run, only=['Node.__attr_index', 'Node.has_attribute', 'Node.is_mapping', 'Node.is_sequence', 'Node.get_attribute', 'Node.remove_attribute', 'Node.rename_attribute', 'Node.is_empty', 'Node.make_mapping', 'Node.get_value', 'Node.seq_items'])
