"""C10 - seasoning and recognition hooks run once, own class only, bases first"""
from props.recog_common import RECOGNIZER, LOADER, LOAD_TRUSTED
R = 'yatiml/recognizer.py::Recognizer.'

PROPERTY = {
    'explanation': 'ghost trace of savorize hook calls: Loader.__savorize '
    'appends exactly sav_order(C) (hooks defined in the bodies of the '
    'registered bases, recursively and in base order, then C\'s own); '
    '__process_node runs that chain after recognition and before anything '
    'below the node, only for a registered recognised class, and turns '
    'SeasoningError into RecognitionError; __recognize_user_class consults '
    '_yatiml_recognize only if it is in the class\'s own body.',
    'trusted': LOAD_TRUSTED,
    'assumptions': ['the enum and string-like representers use hasattr, i.e. '
                    'the visible (possibly inherited) sweeten hook: the '
                    'statement speaks of the node built from the object\'s '
                    'attributes (mapping nodes); recorded, not claimed'],
}


def check(run):
    from checks.main import reflection_bounded
    reflection_bounded(run)
    run.verify_functions([R + '__recognize_user_class'] + LOADER + [
        'yatiml/representers.py::Representer.__sweeten',
        'yatiml/representers.py::Representer.__call__'])
