"""C01 - a loaded value always conforms to the declared type"""
from props.recog_common import RECOGNIZER, LOADER, STRIP, CONSTR, LOAD_TRUSTED

PROPERTY = {
    'explanation': 'Loader.get_single_node/__process_node are verified to '
    'return only nodes related to the composed document by proc_rel: exactly '
    'one recognised type at every visited node, that type\'s tag on the '
    'node, plain data below Any, lists/dicts element-wise; every recognised '
    'type agrees with the node\'s kind/tag (shape_ok) and is a registered '
    'concrete class or a built-in (concrete_ok).  With E-CONSTRUCT (PyYAML '
    'constructs by tag) this gives conformance of scalars, lists and dicts; '
    'for class attributes Constructor.__call__ is verified to run the '
    'user\'s __init__ only on a mapping that passed its checks: '
    '__type_matches(obj, t) == tm(obj, t) (the statement\'s conformance, '
    'element-wise for lists/dicts, some member for unions), every required '
    'parameter present, every present argument conforming to the '
    'parameter\'s type and annotation, no unknown keys unless the class '
    'takes _yatiml_extra.',
    'trusted': LOAD_TRUSTED,
    'assumptions': [],
}


def check(run):
    from checks.main import reflection_bounded, splitoff_bounded
    reflection_bounded(run)
    from checks.main import load_bounded
    load_bounded(run)
    splitoff_bounded(run)
    from checks.main import crosscheck_bounded
    crosscheck_bounded(run, 'yatiml/constructors.py::Constructor.'
                       '__type_matches', {'obj': 'PyV', 'type_': 'Ty'})
    run.verify_functions(RECOGNIZER + LOADER + STRIP + CONSTR)
