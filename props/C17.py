"""C17 - recognition errors point at the offending place"""
from props.recog_common import RECOGNIZER, LOADER, CONSTR, LOAD_TRUSTED

PROPERTY = {
    'explanation': 'weak claim, mechanised: every error tree the recognizer '
    'returns together with a set that is not a singleton has only leaves '
    'that contain the text of a source mark (leafcite; leaves are what '
    'format_rec_error prints), every RecognitionError raised by '
    'Loader.__process_node / get_single_node and by the verified '
    'constructors carries a message containing a mark, and '
    'diagnose_missing_key / diagnose_extraneous_key are verified to quote '
    'the name of the key.  The marks are those of nodes of the document '
    '(the only marks the functions can reach), or of the generated empty-'
    'document node.  The strong claim (the cited line is the line of the '
    'corrupted node / its key / the enclosing mapping) is a two-tree '
    'induction that was not attempted.',
    'trusted': LOAD_TRUSTED + [
        'format_rec_error prints exactly the leaves of the error tree '
        '(assumed contract; it is a 20-line function with a nested '
        'recursive helper)',
        'E-INDENT: textwrap.indent of a one-line string keeps it as a '
        'substring'],
    'assumptions': ['messages never depend on state outside the call: frame '
                    'conditions on the recognizer and message helpers'],
}


def check(run):
    from checks import gluechecks as GC
    run.verify_functions(RECOGNIZER + LOADER + CONSTR + [
        'yatiml/util.py::diagnose_missing_key',
        'yatiml/util.py::diagnose_extraneous_key'])
    ctx = GC.Ctx(run, 'C17')
    GC.frames(ctx)
    from checks.main import errors_bounded
    errors_bounded(run)
