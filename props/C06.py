"""C06 - dumps are faithful, tag-free, ordered, and leave the object untouched"""
from checks import gluechecks as GC

PROPERTY = {
    'explanation': 'option plumbing and registration on the effect summaries: '
    'Dumper.__init__ passes sort_keys=False whatever the caller passed, '
    'OrderedDict is represented as a plain dict, add_to_dumper picks the '
    'representer kind per class kind and import-time registration lands on '
    'yatiml.Dumper; Representer.__sweeten runs the sweeten hooks of the '
    'registered bases first and then the class\'s own (ghost trace, pyvc); '
    'Representer.__call__ hands PyYAML a plain map tag and exactly the '
    'object\'s projection in order (parameters in declaration order, extras '
    'after them in theirs, or what _yatiml_attributes returns) and then '
    'sweetens (pyvc, ghost state represented_items()); '
    'the enum/string/path representers build plain str scalars (pyvc).',
    'trusted': ['E-REPRESENT: SafeRepresenter.represent_mapping/represent_str '
                'node shapes', 'E-EMIT: PyYAML writes no tag for default '
                'tags', 'pyvc.glue abstract interpretation',
                'E-ATTR: hasattr/getattr on the dumped object as '
                'uninterpreted functions; E-ARGSPEC; H-ATTRS: '
                '_yatiml_attributes() is a function of the object and may '
                'raise anything',
                'constructed Python values are immutable terms in the model: '
                '"dumping never modifies the object graph" is decided for '
                'the representers by the absence of any store to the object '
                '(a store is outside the interpreted subset and is reported) '
                'and end-to-end only by the bounded stand-in'],
    'assumptions': [],
}
R = 'yatiml/representers.py::'


def check(run):
    from checks.main import dump_bounded
    dump_bounded(run)
    ctx = GC.Ctx(run, 'C06')
    GC.dumper_init(ctx)
    GC.representer_registration(ctx)
    run.verify_functions([R + 'Representer.__call__',
                          R + 'Representer.__sweeten',
                          R + 'EnumRepresenter.__call__',
                          R + 'UserStringRepresenter.__call__',
                          R + 'PathRepresenter.__call__'], lemmas=False)
