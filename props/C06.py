"""C06 - dumps are faithful, tag-free, ordered, and leave the object untouched"""
from checks import gluechecks as GC

PROPERTY = {
    'explanation': 'option plumbing and registration on the effect summaries: '
    'Dumper.__init__ passes sort_keys=False whatever the caller passed, '
    'OrderedDict is represented as a plain dict, add_to_dumper picks the '
    'representer kind per class kind and import-time registration lands on '
    'yatiml.Dumper; Representer.__sweeten runs the sweeten hooks of the '
    'registered bases first and then the class\'s own (ghost trace, pyvc), '
    'the enum/string/path representers build plain str scalars (pyvc).',
    'trusted': ['E-REPRESENT: SafeRepresenter.represent_mapping/represent_str '
                'node shapes', 'E-EMIT: PyYAML writes no tag for default '
                'tags', 'pyvc.glue abstract interpretation',
                'NOT YET UNDER CONTRACT: Representer.__call__ (attribute '
                'order, frame on data)'],
    'assumptions': [],
}
R = 'yatiml/representers.py::'


def check(run):
    ctx = GC.Ctx(run, 'C06')
    GC.dumper_init(ctx)
    GC.representer_registration(ctx)
    run.verify_functions([R + 'Representer.__sweeten',
                          R + 'EnumRepresenter.__call__',
                          R + 'UserStringRepresenter.__call__',
                          R + 'PathRepresenter.__call__'], lemmas=False)
