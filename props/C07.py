"""C07 - JSON dumps are valid JSON with the same data under every option"""
PROPERTY = {
    'explanation': 'token-level step contract of Dumper.emit_json for every '
    'event class x every stack state (loop-free, all inputs symbolic, hence '
    'complete for one step); tree lemma: the algebraic facts about separator '
    'and successor state that the induction over the value tree needs, on '
    'the real enum constants; whitespace placement deliberately free.',
    'trusted': [
        'E-SERIALIZE: PyYAML serializer event order (stream/document events '
        'at depth 0, end events inside their container)',
        'E-JSON: json.dumps(s, ensure_ascii=b) is a JSON string literal '
        'denoting s, ASCII-only iff b',
        'E-REPRESENT: SafeRepresenter scalar formats (true|false, str(int), '
        'repr(float))',
        'E-EMITTER-INIT: best_line_break is \\n, \\r or \\r\\n',
        'tree-induction skeleton (DESIGN 7.7): given the step contract and '
        'the facts below, running the steps over events(t) from (stack.s, '
        'toks) yields (stack.next(s), toks ++ sep(s) ++ tokens(t))',
    ],
    'assumptions': [],
}
TARGETS = ['yatiml/dumper.py::Dumper.emit_json']

# tokens(seq) = [ items joined by , ]   tokens(map) = { k : v joined by , }
# (RFC 8259); what the inner induction over the children needs:
FACTS = [
    ('top-level value needs no separator',
     'sep_tokens(JS_NONE) == empty_strs() and next_state(JS_NONE) == JS_NONE'),
    ('first array item needs no separator',
     'sep_tokens(JS_SEQUENCE_FIRST) == empty_strs()'),
    ('after the first array item the state is SEQUENCE',
     'next_state(JS_SEQUENCE_FIRST) == JS_SEQUENCE'),
    ('later array items are preceded by one comma',
     "sep_tokens(JS_SEQUENCE) == [','] and next_state(JS_SEQUENCE) == JS_SEQUENCE"),
    ('first object key needs no separator',
     'sep_tokens(JS_MAPPING_KEY_FIRST) == empty_strs()'),
    ('a key is followed by a value position',
     'next_state(JS_MAPPING_KEY_FIRST) == JS_MAPPING_VALUE and '
     'next_state(JS_MAPPING_KEY) == JS_MAPPING_VALUE'),
    ('a value is preceded by one colon and followed by a key position',
     "sep_tokens(JS_MAPPING_VALUE) == [':'] and "
     'next_state(JS_MAPPING_VALUE) == JS_MAPPING_KEY'),
    ('later keys are preceded by one comma',
     "sep_tokens(JS_MAPPING_KEY) == [',']"),
    ('the six states are pairwise distinct (no enum aliasing)',
     'JS_NONE != JS_SEQUENCE and JS_NONE != JS_SEQUENCE_FIRST and '
     'JS_NONE != JS_MAPPING_KEY and JS_NONE != JS_MAPPING_KEY_FIRST and '
     'JS_NONE != JS_MAPPING_VALUE and JS_SEQUENCE != JS_SEQUENCE_FIRST and '
     'JS_SEQUENCE != JS_MAPPING_KEY and JS_SEQUENCE != JS_MAPPING_KEY_FIRST '
     'and JS_SEQUENCE != JS_MAPPING_VALUE and '
     'JS_SEQUENCE_FIRST != JS_MAPPING_KEY and '
     'JS_SEQUENCE_FIRST != JS_MAPPING_KEY_FIRST and '
     'JS_SEQUENCE_FIRST != JS_MAPPING_VALUE and '
     'JS_MAPPING_KEY != JS_MAPPING_KEY_FIRST and '
     'JS_MAPPING_KEY != JS_MAPPING_VALUE and '
     'JS_MAPPING_KEY_FIRST != JS_MAPPING_VALUE'),
]


def check(run):
    from checks import gluechecks as GC
    ctx = GC.Ctx(run, 'C07')
    GC.dumper_init(ctx)         # representation invariant established
    GC.dumper_emit(ctx)
    GC.json_options(ctx)        # indent / ensure_ascii plumbing
    facts = [('C07-tree-lemma::fact#%d' % i, src, label)
             for i, (label, src) in enumerate(FACTS)]
    run.verify_functions(TARGETS, lemmas=False, facts=facts)
    from checks.main import json_bounded
    json_bounded(run)
