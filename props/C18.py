"""C18 - anchors and aliases are transparent"""
from checks.main import Item

PROPERTY = {
    'level': 'other',
    'explanation': 'NOT decided by contracts: the deductive model of this '
    'framework treats node graphs as trees (assumption A-TREE, a '
    'precondition of every contract on the load path), which is exactly '
    'what this property removes.  What is done instead: (1) the cycle clause '
    'is repaired in /repo (D9: self-referential aliases are rejected before '
    'processing) and the new check is exercised here; (2) a BOUNDED stand-in '
    '(labelled bounded, never counted as proved) compares aliased and '
    'alias-expanded documents with the real load functions; (3) two genuine '
    'violations are recorded as known findings with witnesses (D8, D22): '
    'nodes are rewritten in place and re-entered once per reference.',
    'trusted': ['yaml.compose/yaml.serialize for building the expanded '
                'documents'],
    'assumptions': [],
}


def check(run):
    from checks.main import alias_bounded, run_native
    import os
    import json
    alias_bounded(run)
    # the repaired cycle clause, exercised natively
    code = (
        "import yatiml, yaml, sys\n"
        "bad = []\n"
        "for T in (None, list):\n"
        "    f = yatiml.load_function()\n"
        "    for doc in ['&a [*a]', '&a {x: [1, *a]}', 'k: &a [[*a]]',\n"
        "                '&a [1, &b [*a, *b]]']:\n"
        "        try:\n"
        "            f(doc); bad.append((doc, 'loaded'))\n"
        "        except (yatiml.RecognitionError, yaml.YAMLError):\n"
        "            pass\n"
        "        except BaseException as ex:\n"
        "            bad.append((doc, type(ex).__name__))\n"
        "print(__import__('json').dumps(bad))\n")
    rc, out, err = run_native(['-c', code], run.repo)
    try:
        bad = json.loads(out)
    except ValueError:
        bad = [['harness', err[-300:]]]
    it = Item('C18::cycles-rejected', 'table', 'self-referential aliases are '
              'rejected with RecognitionError (4 cyclic documents, real load '
              'function)', 'refuted' if bad else 'discharged',
              'native-enumeration', 0.0)
    if bad:
        it.witness = {'kind': 'native', 'validated': True,
                      'verdict': {'reproduced': True, 'detail': bad}}
    run.add(it)
    run.add(Item('C18::tree-model-stated', 'struct', 'A-TREE is a stated '
                 'precondition of the contracts of the load path (evidence '
                 'of C01-C04, C08); aliasing is outside their reach',
                 'discharged', 'by-construction', 0.0))
