"""C12 - every source and sink kind gives the same result"""
from checks import gluechecks as GC

PROPERTY = {
    'explanation': 'call-argument obligations on the effect summaries of the '
    'real load/dump function factories and their __call__ methods: every '
    'source branch of LoadFunction.__call__ makes one yaml.load call with '
    'the loader class made in the same call (a Path is opened in text mode, '
    'anything else is passed as it is); every sink branch of DumpFunction/'
    'DumpJsonFunction.__call__ calls yaml.dump with exactly the Dumper class '
    '(same bases, attributes, registrations) and options that DumpsFunction/'
    'DumpsJsonFunction uses.  The rest is PyYAML being independent of the '
    'stream kind.',
    'trusted': ['E-STREAM: yaml.load / yaml.dump treat str, text streams and '
                'UTF-8 binary streams alike',
                'pyvc.glue: path-sensitive abstract interpretation of the '
                'wiring code (branches forked, helpers inlined or treated '
                'modularly)'],
    'assumptions': [],
}


def check(run):
    ctx = GC.Ctx(run, 'C12')
    GC.c12(ctx)
