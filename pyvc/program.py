"""Extraction: the real source is re-read from the repository on every run.

Functions are addressed as  'yatiml/helpers.py::Node.set_attribute'  (source
level names).  Dropped by extraction, and only this: docstrings, logger.*()
statements (argument expressions are still *evaluated* by the interpreter for
exceptions unless they are plain str.format of values), cast(T, e) -> e,
type comments, @overload stubs, TYPE_CHECKING imports."""
import ast
import hashlib
import os


class FunctionInfo:
    def __init__(self, module, cls, node, parent=None):
        self.module = module
        self.cls = cls              # ClassInfo or None
        self.node = node
        self.parent = parent        # enclosing FunctionInfo (nested def)
        self.name = node.name
        q = node.name if cls is None else cls.name + '.' + node.name
        if parent is not None:
            q = parent.qual.split('::')[1] + '.<locals>.' + q
        self.qual = module.rel + '::' + q
        self.params = [a.arg for a in node.args.args]
        self.kwonly = [a.arg for a in node.args.kwonlyargs]
        self.vararg = node.args.vararg.arg if node.args.vararg else None
        self.kwarg = node.args.kwarg.arg if node.args.kwarg else None
        self.is_generator = any(
            isinstance(n, (ast.Yield, ast.YieldFrom))
            for n in walk_own(node))
        # loop ordinals: For / While / comprehensions in source order
        loops = [n for n in walk_own(node) if isinstance(
            n, (ast.For, ast.While, ast.ListComp, ast.SetComp, ast.DictComp,
                ast.GeneratorExp))]
        loops.sort(key=lambda n: (n.lineno, n.col_offset))
        self.loop_ordinal = {id(n): i for i, n in enumerate(loops)}
        self.loops = loops
        self.annotations = {a.arg: a.annotation for a in
                            node.args.args + node.args.kwonlyargs}
        self.returns = node.returns

    def body(self):
        b = self.node.body
        if b and isinstance(b[0], ast.Expr) and isinstance(
                b[0].value, ast.Constant) and isinstance(b[0].value.value, str):
            return b[1:]
        return b

    def digest(self):
        src = ast.dump(self.node, include_attributes=False)
        return hashlib.sha256(src.encode()).hexdigest()[:16]

    def __repr__(self):
        return '<fn %s>' % self.qual


def walk_own(fnode):
    """walk a function body without entering nested defs/classes/lambdas"""
    stack = list(fnode.body)
    while stack:
        n = stack.pop()
        yield n
        for c in ast.iter_child_nodes(n):
            if isinstance(c, (ast.FunctionDef, ast.AsyncFunctionDef,
                              ast.ClassDef, ast.Lambda)):
                continue
            stack.append(c)


class ClassInfo:
    def __init__(self, module, node):
        self.module = module
        self.node = node
        self.name = node.name
        self.bases = node.bases
        self.methods = {}
        self.attrs = {}     # class-level assignments name -> ast expr
        for s in node.body:
            if isinstance(s, ast.FunctionDef):
                self.methods[s.name] = FunctionInfo(module, self, s)
            elif isinstance(s, ast.Assign) and len(s.targets) == 1 and \
                    isinstance(s.targets[0], ast.Name):
                self.attrs[s.targets[0].id] = s.value

    def __repr__(self):
        return '<class %s>' % self.name


class ModuleInfo:
    def __init__(self, root, rel):
        self.rel = rel
        self.path = os.path.join(root, rel)
        with open(self.path) as f:
            self.source = f.read()
        self.tree = ast.parse(self.source, self.path)
        self.functions = {}
        self.classes = {}
        self.assigns = {}       # top-level NAME = expr
        self.imports = {}       # local name -> dotted origin
        self.toplevel_stmts = []
        self._scan(self.tree.body)

    def _scan(self, body):
        for s in body:
            if isinstance(s, ast.FunctionDef):
                if any(isinstance(d, ast.Name) and d.id == 'overload'
                       for d in s.decorator_list):
                    continue
                self.functions[s.name] = FunctionInfo(self, None, s)
            elif isinstance(s, ast.ClassDef):
                self.classes[s.name] = ClassInfo(self, s)
            elif isinstance(s, ast.Assign) and len(s.targets) == 1 and \
                    isinstance(s.targets[0], ast.Name):
                self.assigns[s.targets[0].id] = s.value
            elif isinstance(s, ast.Import):
                for a in s.names:
                    self.imports[a.asname or a.name.split('.')[0]] = \
                        a.name if a.asname else a.name.split('.')[0]
            elif isinstance(s, ast.ImportFrom):
                for a in s.names:
                    self.imports[a.asname or a.name] = \
                        (s.module or '') + '.' + a.name
            elif isinstance(s, ast.If):
                # TYPE_CHECKING imports are dropped
                t = s.test
                if isinstance(t, ast.Name) and t.id == 'TYPE_CHECKING':
                    continue
                self.toplevel_stmts.append(s)
            else:
                self.toplevel_stmts.append(s)


class Program:
    def __init__(self, root, files=None, prefix='yatiml'):
        self.root = root
        self.modules = {}
        if files is None:
            d = os.path.join(root, prefix)
            files = sorted(os.path.join(prefix, f) for f in os.listdir(d)
                           if f.endswith('.py'))
        for rel in files:
            self.modules[rel] = ModuleInfo(root, rel)
        self._nested = {}

    def module_by_dotted(self, dotted):
        rel = dotted.replace('.', '/') + '.py'
        return self.modules.get(rel)

    def function(self, qual):
        rel, name = qual.split('::')
        m = self.modules[rel]
        parts = name.split('.')
        if '<locals>' in parts:
            i = parts.index('<locals>')
            outer = self.function(rel + '::' + '.'.join(parts[:i]))
            return self.nested(outer, parts[i + 1:])
        if len(parts) == 1:
            return m.functions[parts[0]]
        return m.classes[parts[0]].methods[parts[1]]

    def nested(self, outer, parts):
        """nested def / class inside a function body"""
        key = (outer.qual, tuple(parts))
        if key in self._nested:
            return self._nested[key]
        body = outer.node.body
        cls = None
        fn = None
        for p in parts:
            found = None
            for s in body:
                if isinstance(s, (ast.FunctionDef, ast.ClassDef)) and \
                        s.name == p:
                    found = s
            if found is None:
                raise KeyError('%s in %s' % (p, outer.qual))
            if isinstance(found, ast.ClassDef):
                cls = ClassInfo(outer.module, found)
                for mi in cls.methods.values():
                    mi.parent = outer
                    mi.qual = outer.qual + '.<locals>.' + cls.name + '.' + \
                        mi.name
                body = found.body
            else:
                if cls is not None:
                    fn = cls.methods[found.name]
                else:
                    fn = FunctionInfo(outer.module, None, found, outer)
                body = found.body
        res = fn if fn is not None else cls
        self._nested[key] = res
        return res

    def all_functions(self):
        for m in self.modules.values():
            for f in m.functions.values():
                yield f
            for c in m.classes.values():
                for f in c.methods.values():
                    yield f
