"""Smart term constructors: keep read-over-write and accessor-over-constructor
resolved on the engine side (DESIGN 3.2) so that solvers see small terms."""
import itertools
import z3
from .sorts import *   # noqa

_UPD = {}       # ast id -> (base, idx, elem)   for seq_update terms
_fresh = itertools.count()


def fresh(prefix, sort):
    return z3.Const('%s!%d' % (prefix, next(_fresh)), sort)


def is_app_of(t, decl):
    return z3.is_app(t) and t.decl().eq(decl)


_FIELDS = ['kind', 'tag', 'val', 'items', 'pairs', 'smark', 'emark']
_ACC = {'kind': n_kind, 'tag': n_tag, 'val': n_val, 'items': n_items,
        'pairs': n_pairs, 'smark': n_smark, 'emark': n_emark}


def nfield(t, name):
    """accessor with accessor-over-constructor resolution"""
    if is_app_of(t, mkN):
        return t.arg(_FIELDS.index(name))
    return _ACC[name](t)


def with_field(t, name, val):
    args = [nfield(t, f) for f in _FIELDS]
    args[_FIELDS.index(name)] = val
    return mkN(*args)


def pfield(t, name):
    if is_app_of(t, mkP):
        return t.arg(0 if name == 'k' else 1)
    return (p_k if name == 'k' else p_v)(t)


def seq_len(s):
    k = s.get_id()
    if k in _UPD:
        return seq_len(_UPD[k][0])
    if z3.is_app(s):
        d = s.decl().kind()
        if d == z3.Z3_OP_SEQ_EMPTY:
            return z3.IntVal(0)
        if d == z3.Z3_OP_SEQ_UNIT:
            return z3.IntVal(1)
    return z3.Length(s)


def seq_nth(s, i):
    k = s.get_id()
    if k in _UPD:
        base, j, x = _UPD[k]
        if j.eq(i):
            return x
        if z3.is_int_value(j) and z3.is_int_value(i):
            return seq_nth(base, i)
    if z3.is_app(s) and s.decl().kind() == z3.Z3_OP_SEQ_UNIT and \
            z3.is_int_value(i) and i.as_long() == 0:
        return s.arg(0)
    return s[i]


def seq_update(s, i, x):
    n = seq_len(s)
    t = z3.Concat(z3.SubSeq(s, z3.IntVal(0), i), z3.Unit(x),
                  z3.SubSeq(s, i + 1, n - i - 1))
    _UPD[t.get_id()] = (s, i, x)
    _KEEP.append(t)
    return t


_KEEP = []      # keep update terms alive so that ast ids are not recycled


_APP = {}       # ast id -> (base, elem)   for append terms


def seq_append(s, x):
    if z3.is_app(s) and s.decl().kind() == z3.Z3_OP_SEQ_EMPTY:
        t = z3.Unit(x)
        _APP[t.get_id()] = (z3.Empty(s.sort()), x)
        _KEEP.append(t)
        return t
    t = z3.Concat(s, z3.Unit(x))
    _APP[t.get_id()] = (s, x)
    _KEEP.append(t)
    return t


def seq_remove_at(s, i):
    n = seq_len(s)
    return z3.Concat(z3.SubSeq(s, z3.IntVal(0), i),
                     z3.SubSeq(s, i + 1, n - i - 1))


def seq_lit(sort, elems):
    if not elems:
        return z3.Empty(sort)
    if len(elems) == 1:
        return z3.Unit(elems[0])
    return z3.Concat(*[z3.Unit(e) for e in elems])


def mk_scalar(tag, val, sm, em):
    return mkN(K_SCALAR, tag, val, EMPTY_NODES, EMPTY_PAIRS, sm, em)


def mk_seq(tag, items, sm, em):
    return mkN(K_SEQ, tag, z3.StringVal(''), items, EMPTY_PAIRS, sm, em)


def mk_map(tag, pairs, sm, em):
    return mkN(K_MAP, tag, z3.StringVal(''), EMPTY_NODES, pairs, sm, em)


def conj(xs):
    xs = [x for x in xs if not z3.is_true(x)]
    if not xs:
        return z3.BoolVal(True)
    if len(xs) == 1:
        return xs[0]
    return z3.And(*xs)


def disj(xs):
    xs = [x for x in xs if not z3.is_false(x)]
    if not xs:
        return z3.BoolVal(False)
    if len(xs) == 1:
        return xs[0]
    return z3.Or(*xs)


def neg(x):
    if z3.is_true(x):
        return z3.BoolVal(False)
    if z3.is_false(x):
        return z3.BoolVal(True)
    if z3.is_not(x):
        return x.arg(0)
    return z3.Not(x)
