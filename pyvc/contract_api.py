"""Names used in contract files.  Contract files are parsed, not executed, by
the prover; this module only keeps linters and the native monitor happy."""
from pyvc.specrt import *      # noqa


def contract(target):
    def deco(f):
        f.__contract_target__ = target
        return f
    return deco


def fields(*a, **k):
    pass
