"""Models of calls: repository functions/classes, spec builtins, the Python
builtins and methods of the interpreted subset (DESIGN 2.2), the PyYAML node
API, comprehensions (loops with an accumulator)."""
import ast
import z3
from . import sorts as so
from .terms import (conj, disj, neg, fresh, nfield, pfield, seq_nth, seq_len,
                    seq_update, seq_append, seq_remove_at, seq_lit, with_field,
                    mk_scalar, mk_seq, mk_map)
from .values import *      # noqa
from .state import State, Unsupported
from .interp import Raise, Frame, wrap, BUILTIN_TY

NEXT, BREAK, CONT, RET, EXC = 'next', 'break', 'continue', 'return', 'raise'

EXTERNAL_ALIASES = {
    'yaml.error.Mark': 'yaml.Mark', 'yaml.nodes.ScalarNode': 'yaml.ScalarNode',
    'copy.copy': 'copy', 'typing.cast': 'cast', 'typing.NewType': 'NewType',
    'typing.Any': 'typing.Any', 'datetime.date': 'datetime.date',
    'textwrap.indent': 'indent', 'inspect.isclass': 'isclass',
    'collections.OrderedDict': 'OrderedDict',
}

MUTATORS = {'append', 'extend', 'pop', 'remove', 'add', 'insert', 'reverse',
            'clear', 'update'}


def ok(st, v):
    return [(st, v)]


class Models:
    def __init__(self):
        self.ext_calls = {}         # dotted name -> handler(engine, args, kwargs, st, node)
        self.methods = {}           # (V class, name) -> handler
        self.plugins = []

    # ---------------------------------------------------------- externals
    def external(self, dotted):
        dotted = EXTERNAL_ALIASES.get(dotted, dotted)
        if dotted.startswith('yatiml.exceptions.'):
            return VExt('exc.' + dotted.split('.')[-1])
        return VExt(dotted)

    def module_const(self, eng, mod, name, expr):
        """top-level NAME = expr, evaluated in the module's own context"""
        eng.frames.append(Frame(_ModFn(mod)))
        saved = eng.mode
        eng.mode = 'exec'
        try:
            res = eng.eval(expr, State())
        finally:
            eng.mode = saved
            eng.frames.pop()
        if len(res) != 1 or isinstance(res[0][1], Raise):
            raise Unsupported('module constant %s.%s' % (mod.rel, name))
        return res[0][1]

    def mk_set(self, eng, items, st):
        if all(isinstance(x, VStr) for x in items) and items:
            t = z3.K(so.S, z3.BoolVal(False))
            for x in items:
                t = z3.Store(t, x.t, z3.BoolVal(True))
            return VSetStr(t)
        tys = [eng.as_ty(x) for x in items]
        if items and all(t is not None for t in tys):
            t = z3.K(so.Ty, z3.BoolVal(False))
            for x in tys:
                t = z3.Store(t, x, z3.BoolVal(True))
            card = z3.IntVal(1) if len(tys) == 1 else None
            return VTySet(t, card)
        raise Unsupported('set display')

    def str_repeat(self, eng, a, b, st):
        # ' ' * n : a string of n copies; modelled by an uninterpreted symbol
        # with the facts the JSON proof needs (only that character)
        for p in self.plugins:
            r = p.str_repeat(eng, a, b, st) if hasattr(
                p, 'str_repeat') else None
            if r is not None:
                return r
        raise Unsupported('str * int')

    def tyset_union(self, eng, a, b, st):
        for p in self.plugins:
            if hasattr(p, 'tyset'):
                sa, sb = p.tyset(eng, a), p.tyset(eng, b)
                if sa is not None and sb is not None:
                    from .plug_types import set_union
                    return VTySet(set_union(sa, sb))
        return None

    def contains(self, eng, container, x, st):
        for p in self.plugins:
            r = p.contains(eng, container, x, st) if hasattr(
                p, 'contains') else None
            if r is not None:
                return r
        return None

    def obj_attr(self, eng, v, name, st):
        for p in self.plugins:
            r = p.obj_attr(eng, v, name, st) if hasattr(
                p, 'obj_attr') else None
            if r is not None:
                return r
        return None

    def class_attr(self, eng, v, name, st):
        for p in self.plugins:
            r = p.class_attr(eng, v, name, st) if hasattr(
                p, 'class_attr') else None
            if r is not None:
                return r
        return None

    def value_attr(self, eng, v, name, st):
        for p in self.plugins:
            r = p.value_attr(eng, v, name, st) if hasattr(
                p, 'value_attr') else None
            if r is not None:
                return r
        return None

    def subscript(self, eng, base, idx, st, node):
        for p in self.plugins:
            r = p.subscript(eng, base, idx, st, node) if hasattr(
                p, 'subscript') else None
            if r is not None:
                return r
        return None

    def unpack(self, eng, target, v, st):
        return None

    def setattr(self, eng, obj, name, v, st, node):
        for p in self.plugins:
            r = p.setattr(eng, obj, name, v, st, node) if hasattr(
                p, 'setattr') else None
            if r is not None:
                return r
        return None

    def setitem(self, eng, base_expr, base, idx, v, st, node):
        if isinstance(base, VSeq) and isinstance(idx, VInt):
            k, t = eng.elem_term(v, st)
            if k != base.elem:
                raise Unsupported('store of %s into Seq[%s]' % (k, base.elem),
                                  node)
            n = seq_len(base.t)
            outs = []
            for s2, inb in eng.branch(st, z3.And(idx.t >= 0, idx.t < n)):
                if inb:
                    new = VSeq(seq_update(base.t, idx.t, t), base.elem)
                    outs.extend(eng.assign(self._as_store(base_expr), new,
                                           s2))
                else:
                    if s2.fork().assume(idx.t < 0).feasible():
                        raise Unsupported('possibly negative index store',
                                          node)
                    outs.append((s2, EXC, VExc('IndexError', (),
                                               getattr(node, 'lineno', 0))))
            return outs
        if isinstance(base, VDictC) and isinstance(base_expr, ast.Name):
            for i, (k, _) in enumerate(base.entries):
                c = eng.v_eq(idx, k, st)
                if z3.is_true(c):
                    ents = list(base.entries)
                    ents[i] = (k, v)
                    st.env[base_expr.id] = VDictC(ents)
                    return [(st, NEXT, None)]
                if not z3.is_false(c):
                    raise Unsupported('dict store with symbolic key', node)
            st.env[base_expr.id] = VDictC(base.entries + [(idx, v)])
            return [(st, NEXT, None)]
        for p in self.plugins:
            r = p.setitem(eng, base_expr, base, idx, v, st, node) if hasattr(
                p, 'setitem') else None
            if r is not None:
                return r
        return None

    def delete(self, eng, s, st):
        return None

    def local_class(self, eng, s, st):
        for p in self.plugins:
            r = p.local_class(eng, s, st) if hasattr(p, 'local_class') \
                else None
            if r is not None:
                return r
        return None

    def with_stmt(self, eng, s, st):
        for p in self.plugins:
            r = p.with_stmt(eng, s, st) if hasattr(p, 'with_stmt') else None
            if r is not None:
                return r
        return None

    def iter_desc(self, eng, itv, st, node):
        for p in self.plugins:
            r = p.iter_desc(eng, itv, st, node) if hasattr(p, 'iter_desc') \
                else None
            if r is not None:
                return r
        return None

    def call_generator(self, eng, fn, fv, args, kwargs, st, node):
        for p in self.plugins:
            r = p.call_generator(eng, fn, fv, args, kwargs, st, node) \
                if hasattr(p, 'call_generator') else None
            if r is not None:
                return r
        return None

    # -------------------------------------------------------------- calls
    def call(self, eng, e, st):
        # spec-level special forms
        if isinstance(e.func, ast.Name) and eng.mode == 'spec':
            if e.func.id == 'old':
                if eng.old_state is None:
                    raise Unsupported('old() outside a postcondition', e)
                saved = eng.old_state
                v = eng.spec_eval(e.args[0], eng.old_state,
                                  dict(eng.old_state.env), old=saved)
                if isinstance(v, VNodeRef):
                    v = VNodeVal(eng.old_state.deref(v))
                return ok(st, v)
            if e.func.id in ('forall', 'exists'):
                return ok(st, self.quantifier(eng, e, st))
        if isinstance(e.func, ast.Name) and e.func.id in ('any', 'all') and \
                len(e.args) == 1 and isinstance(
                e.args[0], (ast.ListComp, ast.GeneratorExp)) and \
                e.func.id not in st.env:
            return self.comprehension(eng, e.args[0], st, 'list',
                                      fuse=e.func.id)
        # mutator methods need the receiver as an l-value
        if isinstance(e.func, ast.Attribute) and e.func.attr in MUTATORS \
                and eng.mode == 'exec':
            r = self.call_mutator(eng, e, st)
            if r is not None:
                return r
        if any(isinstance(a, ast.Starred) for a in e.args) or any(
                k.arg is None for k in e.keywords):
            r = self.call_star(eng, e, st)
            if r is not None:
                return r
            raise Unsupported('*args / **kwargs call', e)
        out = []
        for s, fv in eng.eval(e.func, st):
            if isinstance(fv, Raise):
                out.append((s, fv))
                continue
            exprs = list(e.args) + [k.value for k in e.keywords]
            for s2, vs in eng.evals(exprs, s):
                if isinstance(vs, Raise):
                    out.append((s2, vs))
                    continue
                args = vs[:len(e.args)]
                kwargs = {k.arg: v for k, v in zip(e.keywords,
                                                   vs[len(e.args):])}
                out.extend(self.apply(eng, fv, args, kwargs, s2, e))
        return out

    def call_star(self, eng, e, st):
        for p in self.plugins:
            r = p.call_star(eng, e, st) if hasattr(p, 'call_star') else None
            if r is not None:
                return r
        return None

    def apply(self, eng, fv, args, kwargs, st, node=None):
        if isinstance(fv, VFunc):
            return eng.call_function(fv, args, kwargs, st, node)
        if isinstance(fv, VClass):
            return self.instantiate(eng, fv.cls, args, kwargs, st, node)
        if isinstance(fv, VExt):
            return self.call_ext(eng, fv.name, args, kwargs, st, node)
        if isinstance(fv, VExtMethod):
            return self.call_method(eng, fv.recv, fv.name, args, kwargs, st,
                                    node)
        for p in self.plugins:
            r = p.apply(eng, fv, args, kwargs, st, node) if hasattr(
                p, 'apply') else None
            if r is not None:
                return r
        raise Unsupported('call of %s' % type(fv).__name__, node)

    def instantiate(self, eng, cls, args, kwargs, st, node=None):
        if cls.name in EXC_PARENTS:
            return ok(st, VExc(cls.name, tuple(args),
                               getattr(node, 'lineno', 0)))
        init = eng.find_method(cls, '__init__')
        oid = st.new_obj({})
        obj = VObj(oid, cls)
        if init is None:
            return ok(st, obj)
        out = []
        for s2, v in eng.call_function(VFunc(init, obj), args, kwargs, st,
                                       node):
            out.append((s2, v if isinstance(v, Raise) else obj))
        return out

    # ------------------------------------------------------------ builtins
    def call_ext(self, eng, name, args, kwargs, st, node=None):
        line = getattr(node, 'lineno', 0)
        if name.startswith('exc.'):
            return ok(st, VExc(name[4:], tuple(args), line))
        if name.startswith('spec.'):
            return ok(st, self.call_spec(eng, name[5:], args, st, node))
        if name.startswith('specb.'):
            return ok(st, self.call_specb(eng, name[6:], args, st, node))
        h = self.ext_calls.get(name)
        if h is not None:
            return h(eng, args, kwargs, st, node)
        for p in self.plugins:
            r = p.call_ext(eng, name, args, kwargs, st, node) if hasattr(
                p, 'call_ext') else None
            if r is not None:
                return r
        m = getattr(self, 'x_' + name.replace('.', '_'), None)
        if m is not None:
            return m(eng, args, kwargs, st, node)
        raise Unsupported('call of external ' + name, node)

    def x_cast(self, eng, args, kwargs, st, node):
        return ok(st, args[1])

    def x_NewType(self, eng, args, kwargs, st, node):
        return ok(st, VTy(so.Ty.ty_AnySent))

    def x_len(self, eng, args, kwargs, st, node):
        v = args[0]
        if isinstance(v, VNodeValue):
            n = eng.node_term(v.node, st)
            k = nfield(n, 'kind')
            return ok(st, VInt(z3.If(
                k == so.K_SCALAR, z3.Length(nfield(n, 'val')),
                z3.If(k == so.K_SEQ, seq_len(nfield(n, 'items')),
                      seq_len(nfield(n, 'pairs'))))))
        return ok(st, eng.len_of(v, st))

    def x_isinstance(self, eng, args, kwargs, st, node):
        v, c = args
        return ok(st, VBool(self.isinstance_term(eng, v, c, st, node)))

    def isinstance_term(self, eng, v, c, st, node=None):
        if isinstance(v, VNodeValue):
            # node.value is a str for scalar nodes, a list otherwise
            n = eng.node_term(v.node, st)
            cn = c.name if isinstance(c, VExt) else None
            if cn == 'str':
                return nfield(n, 'kind') == so.K_SCALAR
            if cn == 'list':
                return z3.Or(nfield(n, 'kind') == so.K_SEQ,
                             nfield(n, 'kind') == so.K_MAP)
        if isinstance(c, VTuple):
            return disj([self.isinstance_term(eng, v, x, st, node)
                         for x in c.items])
        cname = c.name if isinstance(c, VExt) else (
            c.cls.name if isinstance(c, VClass) else None)
        if isinstance(v, (VNodeRef, VNodeVal)):
            n = eng.node_term(v, st)
            k = nfield(n, 'kind')
            m = {'yaml.ScalarNode': so.K_SCALAR, 'yaml.SequenceNode': so.K_SEQ,
                 'yaml.MappingNode': so.K_MAP}
            if cname in m:
                return k == m[cname]
            if cname == 'yaml.Node':
                return z3.BoolVal(True)
            if cname in ('str', 'int', 'bool', 'float', 'list', 'dict'):
                return z3.BoolVal(False)
        if isinstance(v, VPV):
            P = so.PV
            m = {'str': P.is_pv_Str(v.t), 'bool': P.is_pv_Bool(v.t),
                 'int': z3.Or(P.is_pv_Int(v.t), P.is_pv_Bool(v.t)),
                 'float': P.is_pv_Float(v.t),
                 'yaml.Node': P.is_pv_Node(v.t)}
            if cname in m:
                return m[cname]
        conc = {VStr: {'str'}, VInt: {'int'}, VBool: {'bool', 'int'},
                VFloat: {'float'}, VListC: {'list'}, VSeq: {'list'},
                VDictC: {'dict'}, VNone: set(), VTuple: {'tuple'}}
        for cls, names in conc.items():
            if isinstance(v, cls) and cname in (
                    'str', 'int', 'bool', 'float', 'list', 'dict', 'tuple',
                    'yaml.Node', 'yaml.ScalarNode', 'yaml.MappingNode',
                    'yaml.SequenceNode', 'pathlib.Path'):
                return z3.BoolVal(cname in names)
        for p in self.plugins:
            r = p.isinstance_term(eng, v, c, st, node) if hasattr(
                p, 'isinstance_term') else None
            if r is not None:
                return r
        raise Unsupported('isinstance(%s, %s)' % (type(v).__name__, cname),
                          node)

    def x_type(self, eng, args, kwargs, st, node):
        v = args[0]
        if isinstance(v, VNone):
            return ok(st, VTy(so.Ty.ty_NoneType))
        if isinstance(v, VPV):
            P, T = so.PV, so.Ty
            t = v.t
            return ok(st, VTy(z3.If(
                P.is_pv_Str(t), T.ty_Str, z3.If(
                    P.is_pv_Bool(t), T.ty_Bool, z3.If(
                        P.is_pv_Int(t), T.ty_Int, z3.If(
                            P.is_pv_Float(t), T.ty_Float, z3.If(
                                P.is_pv_None(t), T.ty_NoneType,
                                T.ty_Other(z3.IntVal(-2)))))))))
        m = {VStr: so.Ty.ty_Str, VInt: so.Ty.ty_Int, VBool: so.Ty.ty_Bool,
             VFloat: so.Ty.ty_Float}
        for cls, t in m.items():
            if isinstance(v, cls):
                return ok(st, VTy(t))
        for p in self.plugins:
            r = p.type_of(eng, v, st, node) if hasattr(p, 'type_of') else None
            if r is not None:
                return r
        raise Unsupported('type() of %s' % type(v).__name__, node)

    def x_str(self, eng, args, kwargs, st, node):
        return ok(st, self.str_of(eng, args[0], st))

    def str_of(self, eng, v, st):
        if isinstance(v, VStr):
            return v
        if isinstance(v, VNodeValue):
            # str(node.value): the string itself for a scalar node
            n = eng.node_term(v.node, st)
            if st.entails(nfield(n, 'kind') == so.K_SCALAR):
                return VStr(nfield(n, 'val'))
            return VStr(fresh('str_of_value', so.S))
        if isinstance(v, VInt):
            return VStr(so.str_of_int(v.t))
        if isinstance(v, VMark):
            return VStr(so.markstr(v.t))
        if isinstance(v, VFloat):
            return VStr(so.str_of_fl(v.t))
        if isinstance(v, VBool):
            return VStr(z3.If(v.t, z3.StringVal('True'),
                              z3.StringVal('False')))
        if isinstance(v, VNone):
            return VStr('None')
        if isinstance(v, VPV):
            P = so.PV
            t = v.t
            return VStr(z3.If(
                P.is_pv_Str(t), P.pv_s(t), z3.If(
                    P.is_pv_Bool(t), z3.If(P.pv_b(t), z3.StringVal('True'),
                                           z3.StringVal('False')), z3.If(
                        P.is_pv_Int(t), so.str_of_int(P.pv_i(t)), z3.If(
                            P.is_pv_Float(t), so.str_of_fl(P.pv_f(t)), z3.If(
                                P.is_pv_None(t), z3.StringVal('None'),
                                fresh('str_of_other', so.S)))))))
        if isinstance(v, VExc):
            if len(v.args) == 1:
                return self.str_of(eng, v.args[0], st)
            return VStr(fresh('str_of_exc', so.S))
        if type(v).__name__ == 'VPyObj' and v.arg is not None:
            from .plug_types import str_of_obj
            return VStr(str_of_obj(v.arg))
        # anything else: an unconstrained string (messages only)
        return VStr(fresh('str_of', so.S))

    def x_int(self, eng, args, kwargs, st, node):
        v = args[0]
        line = getattr(node, 'lineno', 0)
        if isinstance(v, VNodeValue):
            v = self.str_of(eng, v, st)
        if isinstance(v, VInt):
            return ok(st, v)
        if isinstance(v, VBool):
            return ok(st, VInt(z3.If(v.t, 1, 0)))
        if isinstance(v, VStr):
            out = []
            for s, good in eng.branch(st, so.int_dom(v.t)):
                if good:
                    out.append((s, VInt(so.int_of_str(v.t))))
                else:
                    out.append((s, Raise(VExc('ValueError', (), line))))
            return out
        for p in self.plugins:
            r = p.int_of(eng, v, st, node) if hasattr(p, 'int_of') else None
            if r is not None:
                return r
        raise Unsupported('int() of %s' % type(v).__name__, node)

    def x_float(self, eng, args, kwargs, st, node):
        v = args[0]
        line = getattr(node, 'lineno', 0)
        if isinstance(v, VNodeValue):
            v = self.str_of(eng, v, st)
        if isinstance(v, VFloat):
            return ok(st, v)
        if isinstance(v, VInt):
            return ok(st, VFloat(so.fl_of_int(v.t)))
        if isinstance(v, VStr):
            out = []
            for s, good in eng.branch(st, so.fl_dom(v.t)):
                if good:
                    out.append((s, VFloat(so.fl_of_str(v.t))))
                else:
                    out.append((s, Raise(VExc('ValueError', (), line))))
            return out
        for p in self.plugins:
            r = p.float_of(eng, v, st, node) if hasattr(p, 'float_of') \
                else None
            if r is not None:
                return r
        raise Unsupported('float() of %s' % type(v).__name__, node)

    def x_bool(self, eng, args, kwargs, st, node):
        return ok(st, VBool(eng.truth(args[0], st)))

    def x_list(self, eng, args, kwargs, st, node):
        if not args:
            return ok(st, VListC([]))
        v = args[0]
        if isinstance(v, (VListC, VTuple)):
            return ok(st, VListC(v.items))
        if isinstance(v, (VSeq, VRefSeq, VWrapSeq, VSetStr)):
            # (a list of distinct strings used only for membership/removal
            # is modelled as a set of strings)
            return ok(st, v)
        if isinstance(v, VNodeValue):
            return [(s, x) for s, x in eng.resolve_node_value(v, st, node)]
        for p in self.plugins:
            r = p.list_of(eng, v, st, node) if hasattr(p, 'list_of') else None
            if r is not None:
                return r
        raise Unsupported('list() of %s' % type(v).__name__, node)

    def x_set(self, eng, args, kwargs, st, node):
        if not args:
            return ok(st, VSetStr(z3.K(so.S, z3.BoolVal(False))))
        raise Unsupported('set(x)', node)

    def x_dict(self, eng, args, kwargs, st, node):
        if not args and not kwargs:
            return ok(st, VDictC([]))
        raise Unsupported('dict(x)', node)

    def x_map(self, eng, args, kwargs, st, node):
        f, xs = args
        if isinstance(f, VClass) and isinstance(xs, VNodeValue):
            out = []
            for s, seqv in eng.resolve_node_value(xs, st, node):
                if isinstance(seqv, Raise):
                    out.append((s, seqv))
                elif isinstance(seqv, VRefSeq) and seqv.sel == 'item':
                    out.append((s, VWrapSeq(f.cls, seqv)))
                else:
                    out.append((s, Raise(VExc('KindConfusion', (),
                                              getattr(node, 'lineno', 0)))))
            return out
        for p in self.plugins:
            r = p.map_of(eng, f, xs, st, node) if hasattr(p, 'map_of') \
                else None
            if r is not None:
                return r
        raise Unsupported('map()', node)

    def x_copy(self, eng, args, kwargs, st, node):
        v = args[0]
        if isinstance(v, (VNodeRef, VNodeVal)):
            # shallow copy of a node object: a new node with the same fields
            return ok(st, st.new_root(eng.node_term(v, st), 'c'))
        raise Unsupported('copy()', node)

    def x_yaml_Mark(self, eng, args, kwargs, st, node):
        return ok(st, VMark(so.GEN_MARK))

    def _mark(self, v):
        if isinstance(v, VMark):
            return v.t
        if isinstance(v, VNone):
            return so.GEN_MARK
        raise Unsupported('mark argument')

    def x_yaml_ScalarNode(self, eng, args, kwargs, st, node):
        tag, val = args[0], args[1]
        sm = self._mark(args[2]) if len(args) > 2 else so.GEN_MARK
        em = self._mark(args[3]) if len(args) > 3 else so.GEN_MARK
        if isinstance(val, VPV) and st.entails(so.PV.is_pv_Str(val.t)):
            val = VStr(so.PV.pv_s(val.t))
        if not isinstance(tag, VStr) or not isinstance(val, VStr):
            raise Unsupported('ScalarNode(tag, value) with non-str', node)
        return ok(st, st.new_root(mk_scalar(tag.t, val.t, sm, em), 'n'))

    def x_yaml_MappingNode(self, eng, args, kwargs, st, node):
        tag, val = args[0], args[1]
        sm = self._mark(args[2]) if len(args) > 2 else so.GEN_MARK
        em = self._mark(args[3]) if len(args) > 3 else so.GEN_MARK
        if isinstance(val, VListC) and not val.items:
            t = so.EMPTY_PAIRS
        else:
            sq = eng.to_seq(val, st)
            if sq is None or sq.elem != 'pair':
                raise Unsupported('MappingNode value', node)
            t = sq.t
        return ok(st, st.new_root(mk_map(tag.t, t, sm, em), 'n'))

    def x_yaml_SequenceNode(self, eng, args, kwargs, st, node):
        tag, val = args[0], args[1]
        sm = self._mark(args[2]) if len(args) > 2 else so.GEN_MARK
        em = self._mark(args[3]) if len(args) > 3 else so.GEN_MARK
        if isinstance(val, VListC) and not val.items:
            t = so.EMPTY_NODES
        else:
            sq = eng.to_seq(val, st)
            if sq is None or sq.elem != 'node':
                raise Unsupported('SequenceNode value', node)
            t = sq.t
        return ok(st, st.new_root(mk_seq(tag.t, t, sm, em), 'n'))

    def x_any(self, eng, args, kwargs, st, node):
        v = args[0]
        if isinstance(v, VBool):      # fused any(<comprehension>)
            return ok(st, v)
        if isinstance(v, VListC):
            return ok(st, VBool(disj([eng.truth(x, st) for x in v.items])))
        raise Unsupported('any() of %s' % type(v).__name__, node)

    def x_all(self, eng, args, kwargs, st, node):
        v = args[0]
        if isinstance(v, VBool):
            return ok(st, v)
        if isinstance(v, VListC):
            return ok(st, VBool(conj([eng.truth(x, st) for x in v.items])))
        raise Unsupported('all() of %s' % type(v).__name__, node)

    def x_enumerate(self, eng, args, kwargs, st, node):
        return ok(st, VEnumerate(args[0]))

    # ---------------------------------------------------------- methods
    def call_method(self, eng, recv, name, args, kwargs, st, node=None):
        line = getattr(node, 'lineno', 0)
        if isinstance(recv, VStr):
            if name == 'format':
                return ok(st, self.str_format(eng, recv, args, kwargs, st,
                                              node))
            if name == 'startswith' and isinstance(args[0], VStr):
                return ok(st, VBool(z3.PrefixOf(args[0].t, recv.t)))
            if name == 'endswith' and isinstance(args[0], VStr):
                return ok(st, VBool(z3.SuffixOf(args[0].t, recv.t)))
            if name == 'lower':
                return ok(st, VStr(so.lower(recv.t)))
            if name == 'replace' and all(isinstance(a, VStr) for a in args) \
                    and all(z3.is_string_value(a.t) for a in args):
                a, b = args[0].t.as_string(), args[1].t.as_string()
                if (a, b) == ('_', '-'):
                    return ok(st, VStr(so.repl_ud(recv.t)))
                if (a, b) == ('-', '_'):
                    return ok(st, VStr(so.repl_du(recv.t)))
            if name in ('isidentifier', 'isdigit', 'isalpha', 'isalnum',
                        'isascii', 'isspace', 'islower', 'isupper',
                        'isnumeric', 'isdecimal', 'isprintable') and not args:
                # str predicates: uninterpreted functions of the string
                f = z3.Function('sp_str_' + name, so.S, so.B)
                return ok(st, VBool(f(recv.t)))
            if name in ('strip', 'lstrip', 'rstrip', 'upper', 'title',
                        'capitalize', 'casefold') and not args:
                f = z3.Function('sp_str_' + name, so.S, so.S)
                return ok(st, VStr(f(recv.t)))
            if name == 'join' and args and isinstance(
                    args[0], (VTuple, VListC)) and all(
                    isinstance(x, VStr) for x in args[0].items):
                parts = []
                for k, x in enumerate(args[0].items):
                    if k:
                        parts.append(recv.t)
                    parts.append(x.t)
                if not parts:
                    return ok(st, VStr(''))
                return ok(st, VStr(parts[0] if len(parts) == 1
                                   else z3.Concat(*parts)))
            if name == 'join':
                return ok(st, VStr(fresh('joined', so.S)))
        if isinstance(recv, VNodeValue):
            # method on node.value: decide the kind first
            out = []
            for s, v in eng.resolve_node_value(recv, st, node):
                if isinstance(v, Raise):
                    out.append((s, v))
                else:
                    out.extend(self.call_method(eng, v, name, args, kwargs, s,
                                                node))
            return out
        if isinstance(recv, VDictC):
            if name == 'items':
                return ok(st, VListC([VTuple((k, v))
                                      for k, v in recv.entries]))
            if name == 'keys':
                return ok(st, VListC([k for k, _ in recv.entries]))
            if name == 'values':
                return ok(st, VListC([v for _, v in recv.entries]))
            if name == 'get':
                out = []
                for s, v in eng.dict_lookup(recv, args[0], st, node):
                    if isinstance(v, Raise):
                        out.append((s, args[1] if len(args) > 1 else NONE))
                    else:
                        out.append((s, v))
                return out
            if name == 'copy':
                return ok(st, VDictC(recv.entries))
        for p in self.plugins:
            r = p.call_method(eng, recv, name, args, kwargs, st, node) \
                if hasattr(p, 'call_method') else None
            if r is not None:
                return r
        if isinstance(recv, (VRefSeq, VSeq, VListC)) and name in (
                'replace', 'lower', 'upper', 'startswith', 'endswith',
                'format', 'strip', 'split', 'join'):
            # a str method on a list (node.value of a collection node)
            return [(st, Raise(VExc('AttributeError', (), line)))]
        raise Unsupported('method %s on %s' % (name, type(recv).__name__),
                          node)

    def str_format(self, eng, fmt, args, kwargs, st, node=None):
        if not z3.is_string_value(fmt.t):
            raise Unsupported('format on a symbolic string', node)
        text = fmt.t.as_string()
        import string
        pieces = []
        auto = 0
        for lit, field, spec, conv in string.Formatter().parse(text):
            if lit:
                pieces.append(z3.StringVal(lit))
            if field is None:
                continue
            if spec or conv:
                raise Unsupported('format spec', node)
            if field == '':
                v = args[auto]
                auto += 1
            elif field.isdigit():
                v = args[int(field)]
            else:
                v = kwargs[field]
            pieces.append(self.str_of(eng, v, st).t)
        if not pieces:
            return VStr('')
        if len(pieces) == 1:
            return VStr(pieces[0])
        return VStr(z3.Concat(*pieces))

    def call_mutator(self, eng, e, st):
        """x.append(v) etc.: value semantics + store back to the receiver"""
        f = e.func
        name = f.attr
        out = []
        for s, vs in eng.evals([f.value] + list(e.args), st):
            if isinstance(vs, Raise):
                out.append((s, vs))
                continue
            recv, args = vs[0], vs[1:]
            out.extend(self.mutate(eng, f.value, recv, name, args, s, e))
        return out

    def store_back(self, eng, target, v, st, node):
        res = []
        for (s2, ctl, pl) in eng.assign(self._as_store(target), v, st):
            if ctl == NEXT:
                res.append((s2, NONE))
            elif ctl == EXC:
                res.append((s2, Raise(pl)))
        return res

    def _as_store(self, t):
        t2 = ast.parse(ast.unparse(t), mode='eval').body
        for n in ast.walk(t2):
            if hasattr(n, 'ctx'):
                n.ctx = ast.Load()
        t2.ctx = ast.Store()
        return ast.copy_location(t2, t)

    def mutate(self, eng, target, recv, name, args, st, node):
        line = getattr(node, 'lineno', 0)
        if isinstance(recv, VNodeValue):
            out = []
            for s, seqv in eng.resolve_node_value(recv, st, node):
                if isinstance(seqv, Raise):
                    out.append((s, seqv))
                    continue
                if not isinstance(seqv, VRefSeq) or seqv.idx is not None:
                    out.append((s, Raise(VExc('AttributeError', (), line))))
                    continue
                out.extend(self.mutate_node_list(eng, seqv, name, args, s,
                                                 node))
            return out
        if isinstance(recv, VListC):
            if name == 'append':
                new = self.list_append(eng, recv, args[0], st)
                return self.store_back(eng, target, new, st, node)
            if name == 'extend' and isinstance(args[0], (VListC, VTuple)):
                new = recv
                for x in args[0].items:
                    new = self.list_append(eng, new, x, st)
                return self.store_back(eng, target, new, st, node)
            if name == 'extend':
                sq = eng.to_seq(args[0], st)
                if sq is not None and not recv.items:
                    return self.store_back(eng, target, sq, st, node)
            if name == 'remove':
                for i, it in enumerate(recv.items):
                    c = eng.v_eq(it, args[0], st)
                    if z3.is_true(c):
                        return self.store_back(
                            eng, target,
                            VListC(recv.items[:i] + recv.items[i + 1:]), st,
                            node)
                    if not z3.is_false(c):
                        raise Unsupported('list.remove symbolic', node)
                return [(st, Raise(VExc('ValueError', (), line)))]
        if isinstance(recv, VSeq) and name == 'pop' and not args:
            out = []
            n = seq_len(recv.t)
            for s2, nonempty in eng.branch(st, n > 0):
                if nonempty:
                    last = eng.wrap_elem(seq_nth(recv.t, n - 1), recv.elem)
                    new = VSeq(z3.SubSeq(recv.t, z3.IntVal(0), n - 1),
                               recv.elem)
                    for (s3, v) in self.store_back(eng, target, new, s2,
                                                   node):
                        out.append((s3, v if isinstance(v, Raise) else last))
                else:
                    out.append((s2, Raise(VExc('IndexError', (), line))))
            return out
        if isinstance(recv, VSeq):
            if name == 'append':
                k, t = eng.elem_term(args[0], st)
                if k != recv.elem:
                    raise Unsupported('append of %s to Seq[%s]' % (
                        k, recv.elem), node)
                return self.store_back(
                    eng, target, VSeq(seq_append(recv.t, t), recv.elem), st,
                    node)
        if isinstance(recv, VSetStr) and name == 'remove' and isinstance(
                args[0], VStr):
            out = []
            for s2, inn in eng.branch(st, z3.Select(recv.t, args[0].t)):
                if inn:
                    out.extend(self.store_back(
                        eng, target, VSetStr(z3.Store(
                            recv.t, args[0].t, z3.BoolVal(False))), s2, node))
                else:
                    out.append((s2, Raise(VExc('ValueError', (), line))))
            return out
        if isinstance(recv, VSetStr) and name == 'add':
            x = args[0]
            if isinstance(x, VPV):
                # adding a scalar-union value known to be a str
                if not st.entails(so.PV.is_pv_Str(x.t)):
                    raise Unsupported('set.add of a non-str', node)
                x = VStr(so.PV.pv_s(x.t))
            if isinstance(x, VStr):
                return self.store_back(
                    eng, target,
                    VSetStr(z3.Store(recv.t, x.t, z3.BoolVal(True))), st,
                    node)
        for p in self.plugins:
            r = p.mutate(eng, target, recv, name, args, st, node) if hasattr(
                p, 'mutate') else None
            if r is not None:
                return r
        raise Unsupported('mutator %s on %s' % (name, type(recv).__name__),
                          node)

    def list_append(self, eng, lst, x, st):
        k, t = eng.elem_term(x, st)
        if k in ('node', 'pair') or (k is not None and lst.items and False):
            sq = eng.to_seq(lst, st) if lst.items else None
            base = sq.t if sq is not None else z3.Empty(
                z3.SeqSort(ELEM_SORT[k]))
            if lst.items and sq is None:
                raise Unsupported('heterogeneous list')
            return VSeq(seq_append(base, t), k)
        return VListC(lst.items + [x])

    def mutate_node_list(self, eng, seqv, name, args, st, node):
        line = getattr(node, 'lineno', 0)
        field = 'items' if seqv.sel == 'item' else 'pairs'
        n = st.deref(seqv.base)
        seq = nfield(n, field)
        if name == 'append':
            k, t = eng.elem_term(args[0], st)
            if (field == 'items') != (k == 'node') or k not in ('node',
                                                                'pair'):
                raise Unsupported('append of wrong element kind to '
                                  'node.value', node)
            st.write(seqv.base, with_field(n, field, seq_append(seq, t)))
            return ok(st, NONE)
        if name == 'pop':
            if not args:
                raise Unsupported('pop() without index on node.value', node)
            i = args[0]
            if not isinstance(i, VInt):
                raise Unsupported('pop index', node)
            out = []
            inb = z3.And(i.t >= 0, i.t < seq_len(seq))
            for s, good in eng.branch(st, inb):
                if good:
                    elem = eng.nth(seqv, i.t, s)
                    if isinstance(elem, VTuple):
                        elem = VTuple(tuple(VNodeVal(s.deref(x))
                                            for x in elem.items))
                    else:
                        elem = VNodeVal(s.deref(elem))
                    s.write(seqv.base, with_field(
                        s.deref(seqv.base), field, seq_remove_at(seq, i.t)))
                    out.append((s, elem))
                else:
                    s_neg = s.fork().assume(i.t < 0)
                    if s_neg.feasible():
                        raise Unsupported('possibly negative pop index', node)
                    out.append((s, Raise(VExc('IndexError', (), line))))
            return out
        raise Unsupported('mutator %s on node.value' % name, node)

    # ------------------------------------------------------ comprehensions
    def comprehension(self, eng, e, st, kind, fuse=None):
        """[elt for target in iter if cond...] as a loop with accumulator.
        Invariants (by ordinal) may mention _i, _acc (values so far) and _idx
        (indices selected so far)."""
        if len(e.generators) != 1:
            raise Unsupported('nested comprehension', e)
        g = e.generators[0]
        if g.is_async:
            raise Unsupported('async comprehension', e)
        out = []
        for s, itv in eng.eval(g.iter, st):
            if isinstance(itv, Raise):
                out.append((s, itv))
                continue
            handled = None
            for p in self.plugins:
                if hasattr(p, 'set_comprehension'):
                    handled = p.set_comprehension(eng, e, g, s, itv, kind)
                    if handled is not None:
                        break
            if handled is not None:
                out.extend(handled)
                continue
            for s2, d in eng.iter_desc(itv, s, e):
                if isinstance(d, Raise):
                    out.append((s2, d))
                elif d[0] == 'chars':
                    for s3, empty in eng.branch(s2,
                                                z3.Length(d[1].t) == 0):
                        if empty:
                            out.append((s3, self.comp_empty(eng, e, kind,
                                                            fuse)))
                        else:
                            out.append((s3, Raise(VExc('KindConfusion', (),
                                                       e.lineno))))
                elif d[0] == 'concrete':
                    out.extend(self.comp_unrolled(eng, e, g, s2, d[1], kind,
                                                  fuse))
                else:
                    out.extend(self.comp_symbolic(eng, e, g, s2, d[3], d[1],
                                                  d[2], kind, fuse))
        return out

    def comp_empty(self, eng, e, kind, fuse):
        if fuse == 'any':
            return VBool(False)
        if fuse == 'all':
            return VBool(True)
        return VListC([])

    def comp_unrolled(self, eng, e, g, st, items, kind, fuse):
        saved = {}
        live = [(st, [])]
        outs = []
        for it in items:
            new = []
            for s0, acc in live:
                for (s1, c1, p1) in eng.assign(g.target, it, s0):
                    if c1 != NEXT:
                        outs.append((s1, Raise(p1)))
                        continue
                    for s2, keep in self.comp_conds(eng, g, s1):
                        if isinstance(keep, Raise):
                            outs.append((s2, keep))
                        elif not keep:
                            new.append((s2, acc))
                        else:
                            for s3, v in eng.eval(e.elt, s2):
                                if isinstance(v, Raise):
                                    outs.append((s3, v))
                                else:
                                    new.append((s3, acc + [v]))
            live = new
        for s0, acc in live:
            if fuse == 'any':
                outs.append((s0, VBool(disj([eng.truth(x, s0)
                                             for x in acc]))))
            elif fuse == 'all':
                outs.append((s0, VBool(conj([eng.truth(x, s0)
                                             for x in acc]))))
            elif kind == 'set':
                outs.append((s0, self.mk_set(eng, acc, s0)))
            else:
                outs.append((s0, VListC(acc)))
        return outs

    def comp_conds(self, eng, g, st):
        """-> list of (state, True|False|Raise)"""
        res = [(st, True)]
        for c in g.ifs:
            new = []
            for s, keep in res:
                if keep is not True:
                    new.append((s, keep))
                    continue
                for s2, v in eng.eval(c, s):
                    if isinstance(v, Raise):
                        new.append((s2, v))
                        continue
                    for s3, val in eng.branch(s2, eng.truth(v, s2)):
                        new.append((s3, val))
            res = new
        return res

    def comp_symbolic(self, eng, e, g, st, itv, lenfn, elemfn, kind, fuse):
        fr = eng.frame
        ordn = fr.fn.loop_ordinal.get(id(e)) if fr.fn is not None else None
        invs = None
        if fr.contract is not None and ordn is not None:
            invs = fr.contract.invariants.get(ordn)
        invs = invs or []
        group = '%s::comp#%s' % (fr.fn.qual if fr.fn else '?', ordn)
        writes = eng.body_writes_nodes([ast.Expr(value=e.elt)] +
                                       [ast.Expr(value=c) for c in g.ifs])
        # shape of the accumulator: decided by a dry run of the element
        # expression on an arbitrary element
        probe = st.fork()
        ip = fresh('ip', so.I)
        probe.assume(z3.And(ip >= 0, ip < lenfn(probe)))
        ekind = None
        refable = False
        opaque_elts = False
        for (s1, c1, p1) in eng.assign(g.target, elemfn(probe, ip), probe):
            if c1 != NEXT:
                continue
            saved_obl = len(eng.obligations)
            try:
                for s2, keep in self.comp_conds(eng, g, s1):
                    if keep is not True:
                        continue
                    for s3, v in eng.eval(e.elt, s2):
                        if isinstance(v, Raise):
                            continue
                        k, _ = eng.elem_term(v, s3)
                        if k is None:
                            opaque_elts = True
                        ekind = ekind or k
                        refable = refable or (
                            isinstance(itv, VRefSeq) and itv.idx is None and
                            self.is_ref_elt(e.elt, g.target))
            finally:
                del eng.obligations[saved_obl:]
        if fuse in ('any', 'all'):
            ekind = 'bool'
        if ekind is None:
            if not invs and opaque_elts:
                # elements the model does not interpret (message material)
                return [(st, VOpaque('list of uninterpreted values'))]
            if not invs:
                # nothing is ever produced on a feasible path
                ekind = 'str'
            else:
                raise Unsupported('cannot determine the element kind of a '
                                  'comprehension', e)
        esort = ELEM_SORT[ekind]
        accsort = z3.SeqSort(esort)

        def inv_extra(acc, idx):
            ex = {'_acc': VBool(acc) if fuse else VSeq(acc, ekind)}
            if idx is not None:
                ex['_idx'] = VSeq(idx, 'int')
            return ex

        def builtin_facts(s, acc, idx, i):
            if idx is not None and not fuse:
                s.assume(seq_len(acc) == seq_len(idx))
                s.assume(seq_len(idx) <= i)
        acc0 = z3.BoolVal(fuse == 'all') if fuse else z3.Empty(accsort)
        idx0 = z3.Empty(so.IntSeq) if refable else None
        for k, lam in enumerate(invs):
            v = eng.eval_invariant(lam, st, z3.IntVal(0),
                                   inv_extra(acc0, idx0), old=eng.old_state)
            eng.oblige(st, eng.truth(v, st), '%s::inv#%d::init' % (group, k),
                       'internal', 'comprehension invariant on entry',
                       e.lineno)
        outs = []
        # arbitrary iteration
        h = st.fork()
        if writes:
            for r in list(h.roots):
                h.roots[r] = fresh('yn_' + r, so.YNode)
                h.assume(so.is_N(h.roots[r]))
            if h.sav is not None and eng.may_trace():
                h.sav = fresh('sav', so.TySeq)
        i = fresh('i', so.I)
        acc = fresh('acc', so.B if fuse else accsort)
        idx = fresh('idx', so.IntSeq) if refable else None
        h.assume(i >= 0)
        builtin_facts(h, acc, idx, i)
        for lam in invs:
            v = eng.eval_invariant(lam, h, i, inv_extra(acc, idx),
                                   old=eng.old_state)
            h.assume(eng.truth(v, h))
        eng.restore_pinned_roots(h, st)
        hexit = h.fork()
        h.assume(i < lenfn(h))
        if h.feasible():
            for (s1, c1, p1) in eng.assign(g.target, elemfn(h, i), h):
                if c1 != NEXT:
                    outs.append((s1, Raise(p1)))
                    continue
                for s2, keep in self.comp_conds(eng, g, s1):
                    if isinstance(keep, Raise):
                        outs.append((s2, keep))
                        continue
                    if keep:
                        res = eng.eval(e.elt, s2)
                    else:
                        res = [(s2, None)]
                    for s3, v in res:
                        if isinstance(v, Raise):
                            outs.append((s3, v))
                            continue
                        if v is None:
                            acc1, idx1 = acc, idx
                        elif fuse == 'any':
                            acc1, idx1 = z3.Or(acc, eng.truth(v, s3)), None
                        elif fuse == 'all':
                            acc1, idx1 = z3.And(acc, eng.truth(v, s3)), None
                        else:
                            k2, t = eng.elem_term(v, s3)
                            if k2 != ekind:
                                raise Unsupported(
                                    'comprehension elements of mixed kinds',
                                    e)
                            acc1 = seq_append(acc, t)
                            idx1 = seq_append(idx, i) if idx is not None \
                                else None
                        for k, lam in enumerate(invs):
                            vv = eng.eval_invariant(
                                lam, s3, i + 1, inv_extra(acc1, idx1),
                                old=eng.old_state)
                            eng.oblige(s3, eng.truth(vv, s3),
                                       '%s::inv#%d::step' % (group, k),
                                       'internal',
                                       'comprehension invariant preserved',
                                       e.lineno)
        # exit
        hexit.assume(i == lenfn(hexit))
        # restore loop target names? comprehension targets are local to it
        if hexit.feasible():
            if fuse:
                res_v = VBool(acc)
            elif refable:
                res_v = self.ref_result(eng, e, g, itv, acc, idx, ekind)
            elif kind == 'set':
                raise Unsupported('symbolic set comprehension (plugin)', e)
            else:
                res_v = VSeq(acc, ekind)
            for nm in self.target_names(g.target):
                hexit.env.pop(nm, None)
                if nm in st.env:
                    hexit.env[nm] = st.env[nm]
            outs.append((hexit, res_v))
        return outs

    def target_names(self, t):
        return [n.id for n in ast.walk(t) if isinstance(n, ast.Name)]

    def is_ref_elt(self, elt, target):
        """elt is a loop-target name, or the tuple of the two pair targets"""
        names = self.target_names(target)
        if isinstance(elt, ast.Name) and elt.id in names:
            return True
        if isinstance(elt, ast.Tuple) and isinstance(target, ast.Tuple) and \
                [getattr(x, 'id', None) for x in elt.elts] == \
                [getattr(x, 'id', None) for x in target.elts]:
            return True
        return False

    def ref_result(self, eng, e, g, itv, acc, idx, ekind):
        part = None
        if isinstance(e.elt, ast.Name) and isinstance(g.target, ast.Tuple):
            pos = [getattr(x, 'id', None) for x in g.target.elts].index(
                e.elt.id)
            part = 'pk' if pos == 0 else 'pv'
        r = VRefSeq(itv.base, itv.sel, idx, part)
        return VRefSeqV(r, VSeq(acc, ekind))

    # ------------------------------------------------------------- spec side
    def call_spec(self, eng, name, args, st, node=None):
        f = eng.specs.funs[name]
        terms = []
        for a, srt in zip(args, f.psorts):
            terms.append(self.to_term(eng, a, srt, st))
        if not f.recursive:
            return self.spec_body(eng, f, terms)
        t = f.decl(*terms)
        eng.spec_apps[t.get_id()] = (f, terms, t)
        return wrap(t)

    def spec_body(self, eng, f, terms):
        env = {p: wrap(t) for p, t in zip(f.params, terms)}
        body = f.node.body
        if body and isinstance(body[0], ast.Expr) and isinstance(
                body[0].value, ast.Constant):
            body = body[1:]
        st = State()
        st.env = env
        saved = eng.mode
        eng.mode = 'spec'
        eng.frames.append(Frame(None))
        try:
            return self.spec_stmts(eng, body, st)
        finally:
            eng.frames.pop()
            eng.mode = saved

    def spec_stmts(self, eng, body, st):
        s = body[0]
        if isinstance(s, ast.Return):
            return eng.eval1(s.value, st)
        if isinstance(s, ast.If):
            c = eng.truth(eng.eval1(s.test, st), st)
            a = self.spec_stmts(eng, s.body, st)
            rest = s.orelse if s.orelse else body[1:]
            b = self.spec_stmts(eng, rest, st)
            return eng.ite(c, a, b, st)
        if isinstance(s, ast.Assign) and isinstance(s.targets[0], ast.Name):
            st.env[s.targets[0].id] = eng.eval1(s.value, st)
            return self.spec_stmts(eng, body[1:], st)
        raise Unsupported('spec function statement', s)

    def to_term(self, eng, v, sort, st):
        if isinstance(v, VNodeRef):
            v = VNodeVal(st.deref(v))
        if isinstance(v, VNodeRefLike):
            pass
        if isinstance(v, VRefSeqV):
            v = v.vals
        if isinstance(v, (VListC, VRefSeq)):
            sq = eng.to_seq(v, st)
            if sq is None and isinstance(v, VListC) and not v.items:
                return z3.Empty(sort)
            if sq is None:
                raise Unsupported('cannot convert list to a sequence term')
            v = sq
        if isinstance(v, VNone) and sort == so.Ty:
            return so.Ty.ty_None
        if sort == so.PV:
            t = eng.as_pv(v, st)
            if t is not None:
                return t
        if sort == so.Ty:
            t = eng.as_ty(v)
            if t is not None:
                return t
        if hasattr(v, 't') and v.t.sort() == sort:
            return v.t
        if isinstance(v, VPV) and sort == so.S and st.entails(
                so.PV.is_pv_Str(v.t)):
            # an Optional[str] known on this path to be a str
            return so.PV.pv_s(v.t)
        for p in self.plugins:
            if hasattr(p, 'to_term'):
                t = p.to_term(eng, v, sort, st)
                if t is not None:
                    return t
        raise Unsupported('argument %s where sort %s is expected' % (
            type(v).__name__, sort))

    def quantifier(self, eng, e, st):
        lo = eng.eval1(e.args[0], st)
        hi = eng.eval1(e.args[1], st)
        lam = e.args[2]
        j = fresh('j', so.I)
        s = st.fork()
        s.env = dict(st.env)
        s.env[lam.args.args[0].arg] = VInt(j)
        body = eng.truth(eng.eval1(lam.body, s), s)
        rng = z3.And(lo.t <= j, j < hi.t)
        if e.func.id == 'forall':
            return VBool(z3.ForAll([j], z3.Implies(rng, body)))
        return VBool(z3.Exists([j], z3.And(rng, body)))

    def call_specb(self, eng, name, args, st, node=None):
        T = lambda v, srt: self.to_term(eng, v, srt, st)    # noqa
        if name == 'implies':
            return VBool(z3.Implies(eng.truth(args[0], st),
                                    eng.truth(args[1], st)))
        if name == 'iff':
            return VBool(eng.truth(args[0], st) == eng.truth(args[1], st))
        if name == 'ite':
            return eng.ite(eng.truth(args[0], st), args[1], args[2], st)
        if name == 'N':
            return VNodeVal(so.mkN(
                args[0].t, T(args[1], so.S), T(args[2], so.S),
                T(args[3], so.NodeSeq), T(args[4], so.PairSeq),
                T(args[5], so.I), T(args[6], so.I)))
        if name == 'P':
            return VPairVal(so.mkP(T(args[0], so.YNode), T(args[1], so.YNode)))
        if name == 'markstr':
            return VStr(so.markstr(args[0].t))
        if name == 'contains':
            return VBool(z3.Contains(args[0].t, args[1].t))
        if name == 'startswith':
            return VBool(z3.PrefixOf(args[1].t, args[0].t))
        if name == 'endswith':
            return VBool(z3.SuffixOf(args[1].t, args[0].t))
        if name == 'GEN_MARK':
            return VInt(so.GEN_MARK)
        if name == 'empty_nodes':
            return VSeq(so.EMPTY_NODES, 'node')
        if name == 'empty_pairs':
            return VSeq(so.EMPTY_PAIRS, 'pair')
        if name == 'empty_strs':
            return VSeq(z3.Empty(so.StrSeq), 'str')
        if name == 'pv_equal':
            return VBool(eng.pv_eq(T(args[0], so.PV), T(args[1], so.PV)))
        if name == 'in_strs':
            return VBool(z3.Select(args[1].t, args[0].t))
        if name == 'strs_remove':
            return VSetStr(z3.Store(args[0].t, args[1].t, z3.BoolVal(False)))
        if name == 'strs_add':
            return VSetStr(z3.Store(args[0].t, args[1].t, z3.BoolVal(True)))
        if name == 'strs_none':
            return VSetStr(z3.K(so.S, z3.BoolVal(False)))
        if name == 'seq_update':
            sq = eng.to_seq(args[0], st)
            k, t = eng.elem_term(args[2], st)
            return VSeq(seq_update(sq.t, args[1].t, t), sq.elem)
        if name == 'is_node':
            return VBool(so.is_N(T(args[0], so.YNode)))
        if name == 'pv':
            return VPV(eng.as_pv(args[0], st))
        if name == 'typeof':
            (s, v), = self.x_type(eng, args, {}, st, node)
            return v
        if name == 'int_dom':
            return VBool(so.int_dom(args[0].t))
        if name == 'float_dom':
            return VBool(so.fl_dom(args[0].t))
        if name == 'int_of_str':
            return VInt(so.int_of_str(args[0].t))
        if name == 'float_of_str':
            return VFloat(so.fl_of_str(args[0].t))
        if name == 'float_of_int':
            return VFloat(so.fl_of_int(args[0].t))
        if name == 'str_of_int':
            return VStr(so.str_of_int(args[0].t))
        if name == 'str_of_float':
            return VStr(so.str_of_fl(args[0].t))
        if name == 'lower':
            return VStr(so.lower(args[0].t))
        if name.startswith('pv_is_'):
            t = T(args[0], so.PV)
            return VBool(getattr(so.PV, 'is_pv_' + name[6:].capitalize())(t))
        if name in ('pv_str', 'pv_bool', 'pv_int', 'pv_float', 'pv_node'):
            t = T(args[0], so.PV)
            acc = {'pv_str': so.PV.pv_s, 'pv_bool': so.PV.pv_b,
                   'pv_int': so.PV.pv_i, 'pv_float': so.PV.pv_f,
                   'pv_node': so.PV.pv_n}[name]
            return wrap(acc(t))
        if name.startswith('mk_pv_'):
            if name == 'mk_pv_none':
                return VPV(so.PV.pv_None)
            return VPV(eng.as_pv(args[0], st))
        for p in self.plugins:
            r = p.call_specb(eng, name, args, st, node) if hasattr(
                p, 'call_specb') else None
            if r is not None:
                return r
        raise Unsupported('spec builtin ' + name, node)


class VRefSeqV(VRefSeq):
    """a filtered list of node places that also carries its value sequence"""
    __slots__ = ('vals',)

    def __init__(self, r, vals):
        VRefSeq.__init__(self, r.base, r.sel, r.idx, r.part)
        self.vals = vals


class VNodeRefLike:
    pass


class _ModFn:
    """pseudo function so that module-level expressions resolve names"""
    def __init__(self, mod):
        self.module = mod
        self.parent = None
        self.qual = mod.rel + '::<module>'
        self.loop_ordinal = {}
        self.cls = None
