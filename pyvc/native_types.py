"""Native counterpart of the Ty / PyV sorts for counterexample replay: model
values <-> live typing types and Python values.  Runs under /venv/bin/python
(must not import z3)."""
import datetime
import pathlib
import typing

from pyvc import specrt
from pyvc.specrt import TyT

_CLASSES = {}      # class id -> generated class
_IDS = {}          # class -> id


class Bad(Exception):
    pass


def class_for(cid):
    if cid not in _CLASSES:
        c = type('C%s' % cid, (), {})
        _CLASSES[cid] = c
        _IDS[c] = cid
    return _CLASSES[cid]


def conc_type(t):
    """TyT -> a live type as yatiml sees it"""
    from yatiml.util import bool_union_fix
    k = t[0]
    simple = {'Str': str, 'Int': int, 'Float': float, 'Bool': bool,
              'BoolFix': bool_union_fix, 'NoneType': type(None),
              'None': None, 'Any': typing.Any, 'Date': datetime.date,
              'Path': pathlib.Path, 'PyList': list, 'PyDict': dict}
    if k in simple:
        return simple[k]
    if k == 'List':
        return typing.List[conc_type(t[1])]
    if k == 'Dict':
        return typing.Dict[conc_type(t[1]), conc_type(t[2])]
    if k == 'Union':
        ms = [conc_type(m) for m in t[1]]
        if len(ms) < 2 or len({repr(m) for m in ms}) != len(ms) or any(
                m is None or typing.get_origin(m) is typing.Union
                for m in ms):
            raise Bad('Union that typing would normalise')
        return typing.Union[tuple(ms)]
    if k == 'Class':
        return class_for(t[1])
    raise Bad('type %r has no live counterpart' % (t,))


def abs_type(t):
    from yatiml.util import bool_union_fix
    if t is bool_union_fix:
        return specrt.T_BOOLFIX
    simple = {str: 'Str', int: 'Int', float: 'Float', bool: 'Bool',
              type(None): 'NoneType', datetime.date: 'Date',
              pathlib.Path: 'Path', list: 'PyList', dict: 'PyDict'}
    if t is None:
        return specrt.T_NONE
    if t is typing.Any:
        return specrt.T_ANY
    try:
        if t in simple:
            return TyT((simple[t],))
    except TypeError:
        pass
    o = typing.get_origin(t)
    a = typing.get_args(t)
    if o is list:
        return specrt.T_LIST(abs_type(a[0]))
    if o is dict:
        return specrt.T_DICT(abs_type(a[0]), abs_type(a[1]))
    if o is typing.Union:
        return specrt.T_UNION([abs_type(x) for x in a])
    if t in _IDS:
        return specrt.T_CLASS(_IDS[t])
    return specrt.T_OTHER(id(t))


class Other:
    def __repr__(self):
        return '<some other object>'


def conc_pyv(v):
    """native PyV (as produced by sexpr_value) -> live python value"""
    if isinstance(v, tuple) and v and v[0] == '__dict__':
        out = {}
        for k, x in zip(v[1], v[2]):
            k2 = conc_pyv(k)
            try:
                if k2 in out:
                    continue
            except TypeError:
                continue
            out[k2] = conc_pyv(x)
        return out
    if isinstance(v, tuple) and v and v[0] == '__obj__':
        return class_for(v[1].__getitem__(1) if isinstance(v[1], tuple)
                         and len(v[1]) > 1 else 0)()
    if isinstance(v, tuple) and v and v[0] == '__other__':
        return Other()
    if isinstance(v, list):
        return [conc_pyv(x) for x in v]
    return v


def small_types(depth):
    base = [specrt.T_STR, specrt.T_INT, specrt.T_FLOAT, specrt.T_BOOL,
            specrt.T_BOOLFIX, specrt.T_NONETYPE, specrt.T_ANY]
    if depth == 0:
        return list(base)
    sub = small_types(depth - 1)
    out = list(base)
    for t in sub:
        out.append(specrt.T_LIST(t))
        out.append(specrt.T_DICT(specrt.T_STR, t))
    out.append(specrt.T_UNION([specrt.T_INT, specrt.T_STR]))
    out.append(specrt.T_UNION([specrt.T_STR, specrt.T_LIST(specrt.T_INT)]))
    out.append(specrt.T_UNION([specrt.T_BOOLFIX, specrt.T_INT]))
    return out


def small_values(depth):
    base = [None, True, 0, 1, 1.5, '', 'a']
    if depth == 0:
        return list(base)
    sub = small_values(depth - 1)
    if depth > 1:
        sub = [None, True, 1, 'a', [1], {'a': 1}]
    out = list(base)
    out.append([])
    out.append({})
    for a in sub:
        out.append([a])
        out.append({'a': a})
        out.append({1: a})
        for b in sub:
            out.append([a, b])
            out.append({'a': a, 'b': b})
    return out
