"""Statements, loops with invariants, calls with contracts, function VCs."""
import ast
import z3
from . import sorts as so
from .terms import (conj, disj, neg, fresh, nfield, pfield, seq_nth, seq_len,
                    seq_update, seq_append, seq_remove_at, seq_lit, with_field)
from .values import *      # noqa
from .state import State, Unsupported
from .interp import Engine, Raise, Frame, wrap, fresh_of_sortkey

NEXT, BREAK, CONT, RET, EXC = 'next', 'break', 'continue', 'return', 'raise'


def always_exits(block):
    """block surely leaves the enclosing loop iteration by break/return/raise"""
    for s in block:
        if isinstance(s, (ast.Break, ast.Return, ast.Raise)):
            return True
        if isinstance(s, ast.If) and s.orelse and always_exits(s.body) and \
                always_exits(s.orelse):
            return True
    return False


def assigned_names(block, carried_only=True):
    """names (and attribute roots) assigned in a loop body; with carried_only
    the assignments in blocks that surely exit the loop are ignored"""
    names = set()

    def targets(t):
        if isinstance(t, ast.Name):
            names.add(t.id)
        elif isinstance(t, (ast.Tuple, ast.List)):
            for x in t.elts:
                targets(x)
        elif isinstance(t, ast.Starred):
            targets(t.value)

    def visit(blk):
        if carried_only and always_exits(blk):
            # assignments before the exit cannot reach the next iteration,
            # unless a `continue` sits before them (ignored: continue inside
            # an always-exiting block does not occur in straight-line code)
            for s in blk:
                if isinstance(s, ast.Continue):
                    break
            else:
                return
        for s in blk:
            if isinstance(s, ast.Assign):
                for t in s.targets:
                    targets(t)
            elif isinstance(s, (ast.AugAssign, ast.AnnAssign)):
                targets(s.target)
            elif isinstance(s, ast.For):
                targets(s.target)
                visit(s.body)
                visit(s.orelse)
            elif isinstance(s, ast.While):
                visit(s.body)
                visit(s.orelse)
            elif isinstance(s, ast.If):
                visit(s.body)
                visit(s.orelse)
            elif isinstance(s, ast.Try):
                visit(s.body)
                for h in s.handlers:
                    if h.name:
                        names.add(h.name)
                    visit(h.body)
                visit(s.orelse)
                visit(s.finalbody)
            elif isinstance(s, ast.With):
                for it in s.items:
                    if it.optional_vars is not None:
                        targets(it.optional_vars)
                visit(s.body)
            elif isinstance(s, ast.Expr) and isinstance(s.value, ast.Call):
                f = s.value.func
                if isinstance(f, ast.Attribute) and isinstance(
                        f.value, ast.Name) and f.attr in (
                        'append', 'extend', 'pop', 'remove', 'add', 'update',
                        'insert', 'clear', 'reverse'):
                    names.add(f.value.id)
    visit(block)
    return names


class Exec(Engine):

    # ------------------------------------------------------------ statements
    def exec_block(self, stmts, st):
        """-> list of (state, ctl, payload)"""
        outs = [(st, NEXT, None)]
        for s in stmts:
            new = []
            for (s0, ctl, pl) in outs:
                if ctl != NEXT:
                    new.append((s0, ctl, pl))
                    continue
                new.extend(self.exec_stmt(s, s0))
            outs = new
        return outs

    def exec_stmt(self, s, st):
        m = getattr(self, 's_' + type(s).__name__, None)
        if m is None:
            raise Unsupported('statement ' + type(s).__name__, s)
        return m(s, st)

    def _exprs(self, results, k):
        """lift eval results; k(state, value) -> list of outcomes"""
        out = []
        for s, v in results:
            if isinstance(v, Raise):
                out.append((s, EXC, v.exc))
            else:
                out.extend(k(s, v))
        return out

    def s_Pass(self, s, st):
        return [(st, NEXT, None)]

    def s_Break(self, s, st):
        return [(st, BREAK, None)]

    def s_Continue(self, s, st):
        return [(st, CONT, None)]

    def s_Expr(self, s, st):
        if isinstance(s.value, ast.Constant):
            return [(st, NEXT, None)]
        if self.is_logger_call(s.value):
            self.assume_note('E-LOG: logger.debug/info statements dropped')
            return self.exec_logger_args(s.value, st)
        return self._exprs(self.eval(s.value, st),
                           lambda s2, v: [(s2, NEXT, None)])

    def is_logger_call(self, e):
        return (isinstance(e, ast.Call) and isinstance(e.func, ast.Attribute)
                and isinstance(e.func.value, ast.Name)
                and e.func.value.id == 'logger')

    def exec_logger_args(self, call, st):
        """the argument expressions of a dropped logger call are str.format of
        values; they are evaluated only when they contain calls other than
        .format (none in yatiml) -- checked here syntactically"""
        for a in call.args:
            for n in ast.walk(a):
                if isinstance(n, ast.Call):
                    f = n.func
                    ok = isinstance(f, ast.Attribute) and f.attr == 'format'
                    ok = ok or (isinstance(f, ast.Name) and f.id in (
                        'list', 'str', 'type_to_desc'))
                    ok = ok or (isinstance(f, ast.Attribute)
                                and f.attr == 'keys')
                    if not ok:
                        raise Unsupported('logger argument with a call', n)
                if isinstance(n, ast.Attribute) and n.attr == '__name__':
                    self.assume_note('E-LOG-NAME: __name__ in a dropped '
                                     'logger argument exists (class objects)')
        return [(st, NEXT, None)]

    def s_Return(self, s, st):
        if s.value is None:
            st.notes.append('return@%d' % s.lineno)
            return [(st, RET, NONE)]

        def k(s2, v):
            s2.notes.append('return@%d' % s.lineno)
            return [(s2, RET, v)]
        return self._exprs(self.eval(s.value, st), k)

    def s_Raise(self, s, st):
        if s.exc is None:
            raise Unsupported('bare raise', s)

        def k(s2, v):
            if isinstance(v, VExt) and v.name.startswith('exc.'):
                v = VExc(v.name[4:], (), s.lineno)
            if not isinstance(v, VExc):
                raise Unsupported('raise of non-exception', s)
            v.line = s.lineno
            return [(s2, EXC, v)]
        return self._exprs(self.eval(s.exc, st), k)

    def s_If(self, s, st):
        def k(s2, v):
            out = []
            for s3, val in self.branch(s2, self.truth(v, s2)):
                out.extend(self.exec_block(s.body if val else s.orelse, s3))
            return out
        return self._exprs(self.eval(s.test, st), k)

    def s_Assign(self, s, st):
        def k(s2, v):
            outs = [(s2, NEXT, None)]
            for t in s.targets:
                new = []
                for (s3, ctl, pl) in outs:
                    if ctl != NEXT:
                        new.append((s3, ctl, pl))
                    else:
                        new.extend(self.assign(t, v, s3))
                outs = new
            return outs
        return self._exprs(self.eval(s.value, st), k)

    def s_AnnAssign(self, s, st):
        if s.value is None:
            return [(st, NEXT, None)]
        return self._exprs(self.eval(s.value, st),
                           lambda s2, v: self.assign(s.target, v, s2))

    def s_AugAssign(self, s, st):
        load = ast.copy_location(
            ast.BinOp(left=self.as_load(s.target), op=s.op, right=s.value), s)
        # in-place |= on sets etc. share semantics with the binary op here
        return self._exprs(self.eval(load, st),
                           lambda s2, v: self.assign(s.target, v, s2))

    def as_load(self, t):
        t2 = ast.parse(ast.unparse(t), mode='eval').body
        return ast.copy_location(t2, t)

    def assign(self, target, v, st):
        """-> outcomes"""
        if isinstance(target, ast.Name):
            st.env[target.id] = self.typed_local(target.id, v)
            return [(st, NEXT, None)]
        if isinstance(target, (ast.Tuple, ast.List)):
            return self.unpack(target, v, st)
        if isinstance(target, ast.Attribute):
            return self._exprs(
                self.eval(target.value, st),
                lambda s2, obj: self.setattr(obj, target.attr, v, s2, target))
        if isinstance(target, ast.Subscript):
            def k(s2, vs):
                return self.setitem(target.value, vs[0], vs[1], v, s2, target)
            out = []
            for s2, vs in self.evals([target.value, target.slice], st):
                if isinstance(vs, Raise):
                    out.append((s2, EXC, vs.exc))
                else:
                    out.extend(k(s2, vs))
            return out
        raise Unsupported('assignment target', target)

    def typed_local(self, name, v):
        """sort('<local>', key) in the contract gives an empty list / set
        literal assigned to that local its element sort (so that it can be
        carried through a loop)"""
        c = self.frame.contract
        if c is None or name not in c.sorts:
            return v
        key = c.sorts[name]
        if isinstance(v, VListC) and not v.items and key.startswith('Seq['):
            srt = so.SORTS[key]
            return VSeq(z3.Empty(srt), SORT_ELEM[str(srt.basis())])
        if type(v).__name__ == 'VEmptySet' and key == 'Set[Ty]':
            from .plug_types import EMPTY_SET
            return VTySet(EMPTY_SET)
        if type(v).__name__ == 'VEmptySet' and key == 'Set[str]':
            return VSetStr(z3.K(so.S, z3.BoolVal(False)))
        return v

    def unpack(self, target, v, st):
        n = len(target.elts)
        if isinstance(v, (VTuple, VListC)):
            if len(v.items) != n:
                return [(st, EXC, VExc('ValueError', (), target.lineno))]
            outs = [(st, NEXT, None)]
            for t, x in zip(target.elts, v.items):
                new = []
                for (s2, ctl, pl) in outs:
                    if ctl != NEXT:
                        new.append((s2, ctl, pl))
                    else:
                        new.extend(self.assign(t, x, s2))
                outs = new
            return outs
        if isinstance(v, VPairVal) and n == 2:
            return self.unpack(target, VTuple((VNodeVal(pfield(v.t, 'k')),
                                               VNodeVal(pfield(v.t, 'v')))), st)
        if isinstance(v, VSeq):
            outs = []
            for s2, okk in self.branch(st, seq_len(v.t) == n):
                if okk:
                    cur = [(s2, NEXT, None)]
                    for k, t in enumerate(target.elts):
                        nxt = []
                        for (s3, ctl, pl) in cur:
                            if ctl != NEXT:
                                nxt.append((s3, ctl, pl))
                            else:
                                nxt.extend(self.assign(t, self.nth(
                                    v, z3.IntVal(k), s3), s3))
                        cur = nxt
                    outs.extend(cur)
                else:
                    outs.append((s2, EXC, VExc('ValueError', (),
                                               target.lineno)))
            return outs
        r = self.models.unpack(self, target, v, st)
        if r is not None:
            return r
        raise Unsupported('unpack of %s' % type(v).__name__, target)

    def setattr(self, obj, name, v, st, node=None):
        if isinstance(obj, VObj):
            st.heap[obj.oid][name] = v
            return [(st, NEXT, None)]
        if isinstance(obj, VNodeRef):
            n = st.deref(obj)
            if name == 'tag':
                if not isinstance(v, VStr):
                    raise Unsupported('node.tag = non-str', node)
                st.write(obj, with_field(n, 'tag', v.t))
                return [(st, NEXT, None)]
            if name in ('start_mark', 'end_mark'):
                if not isinstance(v, VMark):
                    raise Unsupported('mark = non-mark', node)
                st.write(obj, with_field(
                    n, 'smark' if name == 'start_mark' else 'emark', v.t))
                return [(st, NEXT, None)]
            if name in ('flow_style', 'style'):
                self.assume_note('styles of nodes are not modelled '
                                 '(write to .%s dropped)' % name)
                return [(st, NEXT, None)]
            if name == 'value':
                return self.set_node_value(obj, v, st, node)
        r = self.models.setattr(self, obj, name, v, st, node)
        if r is not None:
            return r
        raise Unsupported('attribute store .%s on %s' % (
            name, type(obj).__name__), node)

    def set_node_value(self, ref, v, st, node=None):
        n = st.deref(ref)
        kind = nfield(n, 'kind')
        if isinstance(v, VStr):
            need, field, term = so.K_SCALAR, 'val', v.t
        else:
            sq = self.to_seq(v, st)
            if sq is None and isinstance(v, VListC) and not v.items:
                # empty list: items or pairs according to the node kind
                out = []
                for K, f, e in ((so.K_SEQ, 'items', so.EMPTY_NODES),
                                (so.K_MAP, 'pairs', so.EMPTY_PAIRS)):
                    s2 = st.fork().assume(kind == K)
                    if s2.feasible():
                        s2.write(ref, with_field(s2.deref(ref), f, e))
                        out.append((s2, NEXT, None))
                s3 = st.fork().assume(z3.And(kind != so.K_SEQ,
                                             kind != so.K_MAP))
                if s3.feasible():
                    raise Unsupported('list stored into a non-collection '
                                      'node', node)
                return out
            if sq is None or sq.elem not in ('node', 'pair'):
                raise Unsupported('node.value = %s' % type(v).__name__, node)
            need = so.K_SEQ if sq.elem == 'node' else so.K_MAP
            field = 'items' if sq.elem == 'node' else 'pairs'
            term = sq.t
        if not st.entails(kind == need):
            # storing a value of the wrong shape makes a malformed node
            raise Unsupported('node.value store may change the node kind',
                              node)
        st.write(ref, with_field(n, field, term))
        return [(st, NEXT, None)]

    def setitem(self, base_expr, base, idx, v, st, node=None):
        if isinstance(base, VNodeValue):
            outs = []
            for s2, seqv in self.resolve_node_value(base, st, node):
                if isinstance(seqv, Raise):
                    outs.append((s2, EXC, seqv.exc))
                    continue
                if not isinstance(seqv, VRefSeq) or seqv.idx is not None:
                    raise Unsupported('item store into scalar value', node)
                n = s2.deref(seqv.base)
                field = 'items' if seqv.sel == 'item' else 'pairs'
                seq = nfield(n, field)
                k, t = self.elem_term(v, s2)
                if (seqv.sel == 'item' and k != 'node') or \
                        (seqv.sel == 'pair' and k != 'pair'):
                    raise Unsupported('wrong element kind stored into '
                                      'node.value', node)
                if not isinstance(idx, VInt):
                    raise Unsupported('non-int index', node)
                inb = z3.And(idx.t >= 0, idx.t < seq_len(seq))
                for s3, ok in self.branch(s2, inb):
                    if ok:
                        s3.write(seqv.base, with_field(
                            s3.deref(seqv.base), field,
                            seq_update(seq, idx.t, t)))
                        outs.append((s3, NEXT, None))
                    else:
                        outs.append((s3, EXC, VExc('IndexError', (),
                                                   node.lineno)))
            return outs
        r = self.models.setitem(self, base_expr, base, idx, v, st, node)
        if r is not None:
            return r
        raise Unsupported('item store on %s' % type(base).__name__, node)

    def s_Delete(self, s, st):
        r = self.models.delete(self, s, st)
        if r is not None:
            return r
        raise Unsupported('del', s)

    def s_FunctionDef(self, s, st):
        fn = self.program.nested(self.frame.fn, [s.name]) \
            if self.frame.fn.parent is None else None
        if fn is None:
            from .program import FunctionInfo
            fn = FunctionInfo(self.frame.fn.module, None, s, self.frame.fn)
        st.env[s.name] = VFunc(fn, None, None)
        return [(st, NEXT, None)]

    def s_ClassDef(self, s, st):
        r = self.models.local_class(self, s, st)
        if r is not None:
            return r
        raise Unsupported('local class', s)

    def s_Import(self, s, st):
        raise Unsupported('local import', s)

    def s_Assert(self, s, st):
        raise Unsupported('assert', s)

    def s_With(self, s, st):
        r = self.models.with_stmt(self, s, st)
        if r is not None:
            return r
        raise Unsupported('with', s)

    def s_Try(self, s, st):
        if s.finalbody:
            raise Unsupported('try/finally', s)
        outs = []
        for (s2, ctl, pl) in self.exec_block(s.body, st):
            if ctl == EXC:
                handled = False
                for h in s.handlers:
                    names = self.handler_names(h, s2)
                    if any(exc_is(pl.cls, n) for n in names):
                        if h.name:
                            s2.env[h.name] = pl
                        outs.extend(self.exec_block(h.body, s2))
                        handled = True
                        break
                    if pl.cls == 'UserException' and any(
                            exc_is(n, 'Exception') and n != 'Exception'
                            for n in names):
                        # an arbitrary user exception may be of this class
                        s3 = s2.fork()
                        if h.name:
                            s3.env[h.name] = VExc(names[0], pl.args, pl.line)
                        outs.extend(self.exec_block(h.body, s3))
                if not handled:
                    outs.append((s2, ctl, pl))
            elif ctl == NEXT and s.orelse:
                outs.extend(self.exec_block(s.orelse, s2))
            else:
                outs.append((s2, ctl, pl))
        return outs

    def handler_names(self, h, st):
        if h.type is None:
            return ['BaseException']
        ts = h.type.elts if isinstance(h.type, ast.Tuple) else [h.type]
        names = []
        for t in ts:
            v = self.eval1(t, st)
            if isinstance(v, VExt) and v.name.startswith('exc.'):
                names.append(v.name[4:])
            elif isinstance(v, VClass) and v.cls.name in EXC_PARENTS:
                names.append(v.cls.name)
            else:
                raise Unsupported('except type', h)
        return names

    # ----------------------------------------------------------------- loops
    def s_While(self, s, st):
        raise Unsupported('while loop', s)

    def s_For(self, s, st):
        def k(s2, itv):
            return self.for_loop(s, s2, itv)
        return self._exprs(self.eval(s.iter, st), k)

    def iter_desc(self, itv, st, node=None):
        """iterable -> list of (state, descriptor) ; descriptor =
        ('concrete', [V...]) | ('sym', lenfn(st)->term, elemfn(st, i)->V)"""
        if isinstance(itv, VNodeValue):
            out = []
            for s2, seqv in self.resolve_node_value(itv, st, node):
                if isinstance(seqv, Raise):
                    out.append((s2, seqv))
                elif isinstance(seqv, VStr):
                    # iterating the characters of a scalar's value
                    out.append((s2, ('chars', seqv)))
                else:
                    out.extend(self.iter_desc(seqv, s2, node))
            return out
        if isinstance(itv, VEnumerate):
            out = []
            for s2, d in self.iter_desc(itv.inner, st, node):
                if isinstance(d, Raise) or d[0] == 'chars':
                    out.append((s2, d))
                elif d[0] == 'concrete':
                    out.append((s2, ('concrete', [
                        VTuple((VInt(k), x)) for k, x in enumerate(d[1])])))
                else:
                    out.append((s2, ('sym', d[1],
                                     lambda s, i, f=d[2]: VTuple(
                                         (VInt(i), f(s, i))), None)))
            return out
        if isinstance(itv, (VListC, VTuple)):
            return [(st, ('concrete', list(itv.items)))]
        if isinstance(itv, VDictC):
            return [(st, ('concrete', [k for k, _ in itv.entries]))]
        if isinstance(itv, (VSeq, VRefSeq, VWrapSeq)):
            return [(st, ('sym',
                          lambda s, itv=itv: self.len_of(itv, s).t,
                          lambda s, i, itv=itv: self.nth(itv, i, s), itv))]
        r = self.models.iter_desc(self, itv, st, node)
        if r is not None:
            return r
        raise Unsupported('iteration over %s' % type(itv).__name__, node)

    def for_loop(self, s, st, itv):
        outs = []
        for s2, d in self.iter_desc(itv, st, s):
            if isinstance(d, Raise):
                outs.append((s2, EXC, d.exc))
            elif d[0] == 'concrete':
                outs.extend(self.loop_unrolled(s, s2, d[1]))
            elif d[0] == 'chars':
                # for x in "<scalar text>": only an empty string is harmless
                for s3, empty in self.branch(s2, z3.Length(d[1].t) == 0):
                    if empty:
                        outs.extend(self.exec_block(s.orelse, s3))
                    else:
                        outs.append((s3, EXC, VExc('KindConfusion', (),
                                                   s.lineno)))
            else:
                outs.extend(self.loop_symbolic(s, s2, d[1], d[2]))
        return outs

    def loop_unrolled(self, s, st, items):
        outs = []
        live = [st]
        for it in items:
            new_live = []
            for s0 in live:
                for (s1, c1, p1) in self.assign(s.target, it, s0):
                    if c1 != NEXT:
                        outs.append((s1, c1, p1))
                        continue
                    for (s2, ctl, pl) in self.exec_block(s.body, s1):
                        if ctl in (NEXT, CONT):
                            new_live.append(s2)
                        elif ctl == BREAK:
                            outs.append((s2, NEXT, None))
                        else:
                            outs.append((s2, ctl, pl))
            live = new_live
        for s0 in live:
            outs.extend(self.exec_block(s.orelse, s0))
        return outs

    def loop_invariants(self, node):
        fr = self.frame
        if fr.contract is None:
            return None, None
        ordn = fr.fn.loop_ordinal.get(id(node))
        return ordn, fr.contract.invariants.get(ordn)

    def eval_invariant(self, lam, st, i_term, extra=None, old=None):
        """lambda _i[, _acc, _idx]: expr   evaluated in spec mode over st"""
        env = dict(st.env)
        params = [a.arg for a in lam.args.args]
        vals = {'_i': VInt(i_term)}
        if extra:
            vals.update(extra)
        for p in params:
            if p not in vals:
                raise Unsupported('invariant parameter ' + p)
            env[p] = vals[p]
        return self.spec_eval(lam.body, st, env, old)

    def spec_eval(self, expr, st, env=None, old=None):
        """evaluate a clause expression in spec mode against state st"""
        s = st.fork()
        if env is not None:
            s.env = env
        saved = (self.mode, self.old_state)
        self.mode = 'spec'
        if old is not None:
            self.old_state = old
        try:
            v = self.eval1(expr, s)
        finally:
            self.mode, self.old_state = saved
        return v

    def havoc_value(self, v, name, st):
        if isinstance(v, (VInt, VBool, VStr, VFloat, VMark, VTy, VPV, VErr,
                          VNodeVal, VPairVal, VKind, VSetStr)):
            return type(v)(fresh(name, v.t.sort()))
        if isinstance(v, VTySet):
            return VTySet(fresh(name, v.t.sort()))
        if isinstance(v, VSeq):
            return VSeq(fresh(name, v.t.sort()), v.elem)
        if isinstance(v, VNone):
            return v
        if isinstance(v, VNodeRef):
            return v        # the reference itself; roots are havocked apart
        if isinstance(v, VObj):
            return v
        raise Unsupported('havoc of loop-carried %s (%s)' % (
            name, type(v).__name__))

    def body_writes_nodes(self, body):
        for n in ast.walk(ast.Module(body=list(body), type_ignores=[])):
            if isinstance(n, ast.Attribute) and isinstance(n.ctx, ast.Store) \
                    and n.attr in ('tag', 'value', 'start_mark', 'end_mark',
                                   'yaml_node'):
                return True
            if isinstance(n, ast.Subscript) and isinstance(n.ctx, ast.Store):
                return True
            if isinstance(n, ast.Call):
                f = n.func
                if isinstance(f, ast.Attribute) and f.attr in (
                        'append', 'pop', 'remove', 'extend') and isinstance(
                        f.value, ast.Attribute) and f.value.attr == 'value':
                    return True
                if isinstance(f, ast.Attribute) and not self.call_is_readonly(
                        f.attr):
                    return True
                if isinstance(f, ast.Name) and not self.call_is_readonly(
                        f.id):
                    return True
        return False

    READONLY = {'format', 'append', 'add', 'extend', 'is_scalar', 'is_mapping',
                'is_sequence', 'get_value', 'has_attribute', 'get_attribute',
                'seq_items', 'is_empty', 'isinstance', 'len', 'str', 'int',
                'float', 'bool', 'type', 'lower', 'replace', 'startswith',
                'list', 'set', 'map', 'Node', 'copy', 'ScalarNode',
                'MappingNode', 'SequenceNode', 'recognize', 'type_to_desc',
                'cjoin', 'indent', 'issubclass', 'is_generic_sequence',
                'is_generic_mapping', 'is_generic_union', 'generic_type_args',
                'is_string_like', 'is_abstract', 'matches', 'items', 'keys',
                'values', 'get', 'any', 'all', 'enumerate', 'find_leaves',
                'diagnose_missing_key', 'class_subobjects', 'SeasoningError',
                'RecognitionError', 'RuntimeError', 'join', 'write', 'dumps',
                'debug', 'info', 'has_attribute_type', 'issubset', 'Mark',
                'hasattr', 'getattr', 'next', 'iter', 'require_mapping',
                'ValueError', 'TypeError', 'defaulted_attributes', 'pop',
                '__type_matches', 'isclass', 'isabstract', 'remove',
                '__recognize_user_class', '__recognize_user_classes',
                '__recognize_scalar', '__recognize_list', '__recognize_dict',
                '__recognize_union', '__recognize_additional'}

    def call_is_readonly(self, name):
        if name in self.opts.get('not_readonly', ()):
            return False
        return name in self.READONLY

    def loop_symbolic(self, s, st, lenfn, elemfn):
        ordn, invs = self.loop_invariants(s)
        fr = self.frame
        if invs is None:
            raise Unsupported('loop #%s without an invariant in %s' % (
                ordn, fr.fn.qual), s)
        carried = assigned_names(s.body) | assigned_names(s.orelse, False)
        # loop targets are re-bound each iteration: not carried state
        tnames = set()
        for n in ast.walk(s.target):
            if isinstance(n, ast.Name):
                tnames.add(n.id)
        carried -= tnames
        writes = self.body_writes_nodes(s.body)
        group = '%s::loop#%d' % (fr.fn.qual, ordn)
        pre = st
        # 1. establishment
        for k, lam in enumerate(invs):
            v = self.eval_invariant(lam, st, z3.IntVal(0), old=self.old_state)
            self.oblige(st, self.truth(v, st), '%s::inv#%d::init' % (group, k),
                        'internal', 'invariant holds on entry', s.lineno)
        # 2. arbitrary iteration
        def havoc(base):
            h = base.fork()
            for nm in sorted(carried):
                if nm in h.env:
                    h.env[nm] = self.havoc_value(h.env[nm], nm, h)
            if writes:
                for r in list(h.roots):
                    h.roots[r] = fresh('yn_' + r, so.YNode)
                    h.assume(so.is_N(h.roots[r]))
                if h.sav is not None and self.may_trace():
                    h.sav = fresh('sav', so.TySeq)
            return h
        outs = []
        h = havoc(st)
        i = fresh('i', so.I)
        h.assume(i >= 0)
        for lam in invs:
            v = self.eval_invariant(lam, h, i, old=self.old_state)
            h.assume(self.truth(v, h))
        self.restore_pinned_roots(h, st)
        hexit = h.fork()
        n_now = lenfn(h)
        h.assume(i < n_now)
        if h.feasible():
            for (s1, c1, p1) in self.assign(s.target, elemfn(h, i), h):
                if c1 != NEXT:
                    outs.append((s1, c1, p1))
                    continue
                for (s2, ctl, pl) in self.exec_block(s.body, s1):
                    if ctl in (NEXT, CONT):
                        for k, lam in enumerate(invs):
                            v = self.eval_invariant(lam, s2, i + 1,
                                                    old=self.old_state)
                            self.oblige(s2, self.truth(v, s2),
                                        '%s::inv#%d::step' % (group, k),
                                        'internal',
                                        'invariant preserved', s.lineno)
                    elif ctl == BREAK:
                        outs.append((s2, NEXT, None))
                    else:
                        outs.append((s2, ctl, pl))
        # 3. exit: invariant at i == len
        hexit.assume(i == lenfn(hexit))
        if hexit.feasible():
            outs.extend(self.exec_block(s.orelse, hexit))
        return outs

    def may_trace(self):
        """can the code of the current activation reach a savorize/sweeten
        hook?  (only functions whose contract says traces(), and un-contracted
        code inlined into them)"""
        for fr in reversed(self.frames):
            if fr.contract is not None:
                return fr.contract.traces
        return True

    def restore_pinned_roots(self, h, pre):
        """a havocked root that the invariant equates with its pre-loop value
        is put back syntactically (keeps terms small and triggers matching)"""
        for r, t in list(h.roots.items()):
            t0 = pre.roots.get(r)
            if t0 is None or t.eq(t0):
                continue
            if h.entails(t == t0):
                h.roots[r] = t0
            elif self.old_state is not None and r in self.old_state.roots:
                t00 = self.old_state.roots[r]
                if not t00.eq(t0) and h.entails(t == t00):
                    h.roots[r] = t00

    # ------------------------------------------------------------ functions
    def bind_args(self, fn, args, kwargs, st, self_v=None):
        """-> env dict (defaults evaluated in the function's module)"""
        node = fn.node
        params = list(fn.params)
        env = {}
        pos = list(args)
        if self_v is not None:
            pos = [self_v] + pos
        if len(pos) > len(params) and fn.vararg is None:
            raise Unsupported('too many positional arguments for ' + fn.qual)
        for p, a in zip(params, pos):
            env[p] = a
        if fn.vararg is not None:
            env[fn.vararg] = VTuple(pos[len(params):])
        for k, v in kwargs.items():
            if k in env:
                raise Unsupported('duplicate argument ' + k)
            if k not in params and k not in fn.kwonly:
                raise Unsupported('unexpected keyword ' + k)
            env[k] = v
        defaults = node.args.defaults
        for p, d in zip(params[len(params) - len(defaults):], defaults):
            if p not in env:
                env[p] = self.eval_default(fn, d)
        for p, d in zip(fn.kwonly, node.args.kw_defaults):
            if p not in env and d is not None:
                env[p] = self.eval_default(fn, d)
        for p in params + fn.kwonly:
            if p not in env:
                raise Unsupported('missing argument %s for %s' % (p, fn.qual))
        return env

    def eval_default(self, fn, d):
        self.frames.append(Frame(fn))
        try:
            return self.eval1(d, State())
        finally:
            self.frames.pop()

    def call_function(self, fv, args, kwargs, st, node=None):
        """call of a repository function value -> eval-style results"""
        fn = fv.fn
        if isinstance(fn, tuple) and fn[0] == 'lambda':
            return self.call_lambda(fv, args, st)
        contract = self.contracts.get(fn.qual)
        if contract is not None and not contract.inline and not (
                self.opts.get('inline_all')):
            return self.call_contract(fn, contract, fv, args, kwargs, st, node)
        return self.call_inline(fn, fv, args, kwargs, st, node)

    def call_lambda(self, fv, args, st):
        lam = fv.fn[1]
        s = st.fork()
        saved_env = s.env
        env = dict(fv.closure or {})
        env.update(saved_env)
        for p, a in zip([x.arg for x in lam.args.args], args):
            env[p] = a
        s.env = env
        out = []
        for s2, v in self.eval(lam.body, s):
            s2.env = saved_env
            out.append((s2, v))
        return out

    def eval_clause_lambda(self, lam, args, st):
        """a lambda of a contract clause, evaluated in spec mode"""
        saved = self.mode
        self.mode = 'spec'
        self.frames.append(Frame(None))
        try:
            res = self.call_lambda(VFunc(('lambda', lam), None, {}), args,
                                   st)
        finally:
            self.frames.pop()
            self.mode = saved
        if len(res) != 1 or isinstance(res[0][1], Raise):
            raise Unsupported('clause lambda forks')
        return res[0][1]

    def call_inline(self, fn, fv, args, kwargs, st, node=None):
        if fn.qual in self.inline_stack:
            raise Unsupported('recursive function %s needs a contract' %
                              fn.qual, node)
        if fn.is_generator:
            r = self.models.call_generator(self, fn, fv, args, kwargs, st,
                                           node)
            if r is not None:
                return r
            raise Unsupported('generator %s needs a model' % fn.qual, node)
        env = self.bind_args(fn, args, kwargs, st, fv.self)
        saved_env = st.env
        st.env = env
        closure = dict(fv.closure or {})
        if fn.parent is not None:
            # nested def: sees the locals of the enclosing activation
            closure.update(saved_env)
        self.frames.append(Frame(fn, None, closure))
        self.inline_stack.append(fn.qual)
        try:
            outs = self.exec_block(fn.body(), st)
        finally:
            self.inline_stack.pop()
            self.frames.pop()
        res = []
        for (s2, ctl, pl) in outs:
            s2.env = dict(saved_env)
            if ctl == EXC:
                res.append((s2, Raise(pl)))
            elif ctl == RET:
                res.append((s2, pl))
            elif ctl == NEXT:
                res.append((s2, NONE))
            else:
                raise Unsupported('break/continue escaped a function')
        return res

    # --- contracts at call sites
    def clause_env(self, fn, env):
        return dict(env)

    def call_contract(self, fn, c, fv, args, kwargs, st, node=None):
        env = self.bind_args(fn, args, kwargs, st, fv.self)
        for pn, key in c.sorts.items():
            if pn in env:
                for p in self.models.plugins:
                    if hasattr(p, 'coerce_arg'):
                        r = p.coerce_arg(self, env[pn], key, st)
                        if r is not None:
                            env[pn] = r
                            break
        pre = st
        line = getattr(node, 'lineno', 0)
        caller = self.frame.fn.qual if self.frame.fn else '?'
        self.frames.append(Frame(fn, c))
        try:
            # 1. preconditions
            for k, r in enumerate(c.requires):
                v = self.spec_eval(r, pre, env, old=pre)
                self.oblige(pre, self.truth(v, pre),
                            '%s::call:%s::requires#%d' % (
                                caller, fn.qual.split('::')[1], k),
                            'pre', 'precondition of callee', line)
            results = []
            # 2. normal return (several result shapes for Opt[...] results)
            for variant in self.result_variants(fn, c):
                post = pre.fork()
                post_env = dict(env)
                self.havoc_modifies(fn, c, post, post_env, pre, env)
                result = self.contract_result(fn, c, post, post_env, pre, env,
                                              variant)
                for e in c.requires:
                    # preconditions are facts about the pre-state as well
                    post.assume(self.truth(
                        self.spec_eval(e, pre, env, old=pre), pre))
                for e in c.ensures:
                    env2 = dict(post_env)
                    env2['result'] = result
                    post.assume(self.truth(
                        self.spec_eval(e, post, env2,
                                       old=self._with_env(pre, env)), post))
                if post.feasible():
                    results.append((post, result))
            # 3. exceptional returns
            for (exc, when) in c.raises:
                ex = pre.fork()
                ex_env = dict(env)
                self.havoc_modifies(fn, c, ex, ex_env, pre, env)
                if when is not None:
                    ex.assume(self.truth(self.spec_eval(
                        when, pre, env, old=self._with_env(pre, env)), pre))
                if ex.feasible():
                    msg = VStr(fresh('msg', so.S))
                    lam = c.raises_msg.get(exc)
                    if lam is not None:
                        ex.assume(self.truth(self.eval_clause_lambda(
                            lam, [msg], ex), ex))
                    else:
                        # nothing is promised about the exception's
                        # arguments: it may have none (raise E())
                        results.append((ex.fork(), Raise(VExc(exc, (),
                                                              line))))
                    results.append((ex, Raise(VExc(exc, (msg,), line))))
        finally:
            self.frames.pop()
        return results

    def _with_env(self, st, env):
        s = st.fork()
        s.env = dict(env)
        return s

    def havoc_modifies(self, fn, c, post, post_env, pre, env):
        if c.traces and post.sav is not None:
            post.sav = fresh('sav_post', so.TySeq)
        for m in c.modifies:
            ref = self.eval_place(m, pre, env)
            self.detach_inner_refs(fn, ref, post, pre)
            new = fresh('yn_post', so.YNode)
            post.assume(so.is_N(new))
            post.write(ref, new)
        for m in c.rebinds:
            # object field that is re-bound to a (possibly) new node
            if not (isinstance(m, ast.Attribute)):
                raise Unsupported('rebinds clause must be obj.field')
            obj = self.spec_eval(m.value, pre, env)
            new = fresh('yn_reb', so.YNode)
            post.assume(so.is_N(new))
            ref = post.new_root(new, 'b')
            post.heap[obj.oid][m.attr] = ref

    # callees known (by their verified bodies: the pair list is rebuilt by a
    # filter, nothing is stored through a pair) not to touch the nodes below
    # the one they restructure: a reference the caller still holds to such a
    # node keeps denoting the node as it was before the call (A-DETACH)
    DETACH_KEEPS = ('yatiml/helpers.py::Node.remove_attribute',)

    def detach_inner_refs(self, fn, ref, post, pre):
        """the callee restructures the node at `ref`: a local of the caller
        that refers to a node strictly below it no longer denotes "the node at
        that path" afterwards (indices shift, the node may have left the
        tree).  Python keeps the object; the model detaches the local into a
        read-only root: with the pre-call value for callees in DETACH_KEEPS,
        with an unknown value otherwise."""
        def below(r):
            if not isinstance(r, VNodeRef) or r.root != ref.root:
                return False
            if len(r.path) <= len(ref.path):
                return False
            for (s1, i1), (s2, i2) in zip(ref.path, r.path):
                if s1 != s2 or not (i1 is i2 or z3.eq(
                        z3.simplify(i1 == i2), z3.BoolVal(True))):
                    return False
            return True
        for name, v in list(post.env.items()):
            if below(v):
                if fn.qual in self.DETACH_KEEPS:
                    self.assume_note(
                        'A-DETACH: Node.remove_attribute does not modify the '
                        'node it removes (its verified body rebuilds the pair '
                        'list by a filter); a reference held by the caller '
                        'keeps the pre-call value')
                    t = pre.deref(v)
                else:
                    t = fresh('yn_detached', so.YNode)
                    post.assume(so.is_N(t))
                nr = post.new_root(t, 'd')
                post.stale = post.stale | {nr.root}
                post.env[name] = nr

    def eval_place(self, e, st, env):
        """evaluate a place expression (self.yaml_node, node,
        x.pairs[k].v, x.items[k]) to a VNodeRef"""
        if isinstance(e, ast.Lambda):
            e = e.body
        if isinstance(e, ast.Attribute) and e.attr in ('v', 'k') and \
                isinstance(e.value, ast.Subscript) and isinstance(
                e.value.value, ast.Attribute) and \
                e.value.value.attr == 'pairs':
            base = self.eval_place(e.value.value.value, st, env)
            idx = self.spec_eval(e.value.slice, st, env)
            return base.child('pv' if e.attr == 'v' else 'pk', idx.t)
        if isinstance(e, ast.Subscript) and isinstance(
                e.value, ast.Attribute) and e.value.attr == 'items':
            base = self.eval_place(e.value.value, st, env)
            idx = self.spec_eval(e.slice, st, env)
            return base.child('item', idx.t)
        saved = self.mode
        s = self._with_env(st, env)
        self.mode = 'exec'
        try:
            v = self.eval1(e, s)
        finally:
            self.mode = saved
        if not isinstance(v, VNodeRef):
            raise Unsupported('place expression does not denote a node '
                              'reference: ' + ast.unparse(e))
        return v

    def result_variants(self, fn, c):
        key = c.results or self.annotation_sortkey(fn.returns)
        if key is not None and key.startswith('Opt['):
            return ['None', key[4:-1]]
        return [key]

    def contract_result(self, fn, c, post, post_env, pre, env, key=None):
        if c.returns_place is not None:
            ref = self.eval_place(c.returns_place, post, post_env)
            cls = self.result_class(fn)
            oid = post.new_obj({'yaml_node': ref})
            return VObj(oid, cls)
        if key is None or key == 'None':
            return NONE
        return self.fresh_by_key(key, 'res', post)

    def result_class(self, fn):
        r = fn.returns
        name = r.value if isinstance(r, ast.Constant) else ast.unparse(r)
        v = self.module_name(fn.module, name.strip("'"))
        if not isinstance(v, VClass):
            raise Unsupported('result class of ' + fn.qual)
        return v.cls

    def annotation_sortkey(self, ann):
        if ann is None:
            return None
        txt = ann.value if isinstance(ann, ast.Constant) and isinstance(
            ann.value, str) else ast.unparse(ann)
        return {'str': 'str', 'int': 'int', 'bool': 'bool', 'None': 'None',
                'yaml.Node': 'node', 'yaml.MappingNode': 'node',
                'ScalarType': 'PV', 'Type': 'Ty',
                'Union[Type, None]': 'Ty', 'Union[None, Type]': 'Ty',
                'Optional[Type]': 'Ty',
                'Union[ScalarType, yaml.Node]': 'PV',
                'Union[int, str, float, bool, None]': 'PV',
                'List[str]': 'Seq[str]',
                }.get(txt)

    def fresh_by_key(self, key, prefix, st):
        if key == 'node':
            t = fresh('yn_' + prefix, so.YNode)
            st.assume(so.is_N(t))
            return st.new_root(t, 'p')
        if key.startswith('Opt['):
            raise Unsupported('Opt sort must be split by the caller')
        for p in self.models.plugins:
            if hasattr(p, 'fresh_by_key'):
                v = p.fresh_by_key(self, key, prefix, st)
                if v is not None:
                    return v
        return wrap(fresh(prefix, so.SORTS[key]))
