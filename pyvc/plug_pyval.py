"""Constructed Python values (DESIGN 3.1 PyVal) for the constructors' type
check (C01, C04): None, bool, int, float, str, list, dict (keys/values in
insertion order), object of a class, other."""
import z3
from . import sorts as so
from .terms import fresh, seq_len, seq_nth
from .values import *      # noqa
from .state import Unsupported
from . import interp
from .interp import Raise

Ty = so.Ty
_PY = z3.Datatype('PyV')
_PYr = z3.DatatypeSort('PyV')
_PY.declare('py_None')
_PY.declare('py_Bool', ('py_b', so.B))
_PY.declare('py_Int', ('py_i', so.I))
_PY.declare('py_Float', ('py_f', so.Fl))
_PY.declare('py_Str', ('py_s', so.S))
_PY.declare('py_List', ('py_items', z3.SeqSort(_PYr)))
_PY.declare('py_Dict', ('py_keys', z3.SeqSort(_PYr)),
            ('py_vals', z3.SeqSort(_PYr)))
_PY.declare('py_Obj', ('py_cls', Ty), ('py_id', so.I))
_PY.declare('py_Other', ('py_oid', so.I))
PyV = _PY.create()
PySeq = z3.SeqSort(PyV)
so.SORTS['PyV'] = PyV
so.SORTS['Seq[PyV]'] = PySeq
SORT_ELEM['PyV'] = 'pyv'
ELEM_SORT['pyv'] = PyV

# (key, value) tuples of constructed values, e.g. the items of a dict
_PP = z3.Datatype('PyPair')
_PP.declare('pp_mk', ('pp_k', PyV), ('pp_v', PyV))
PyPair = _PP.create()
PPSeq = z3.SeqSort(PyPair)
so.SORTS['PyPair'] = PyPair
so.SORTS['Seq[PyPair]'] = PPSeq
SORT_ELEM['PyPair'] = 'pypair'
ELEM_SORT['pypair'] = PyPair
# attributes of objects
py_hasattr = z3.Function('py_hasattr', PyV, so.S, so.B)
py_attr = z3.Function('py_attr', PyV, so.S, PyV)
py_yattrs = z3.Function('py_yattrs', PyV, PyV)   # obj._yatiml_attributes()

# isinstance(obj, cls) for classes the model does not interpret
ct_isinst = z3.Function('ct_isinst', PyV, Ty, so.B)
# type(obj)
py_type = z3.Function('py_type', PyV, Ty)

# inspect.getfullargspec(cls.__init__): the names of the parameters (with
# self) and the annotations that are present (E-ARGSPEC)
_AS = z3.Datatype('ArgSpec')
_AS.declare('as_mk', ('as_id', so.I))
ArgSpec = _AS.create()
so.SORTS['ArgSpec'] = ArgSpec
as_args = z3.Function('as_args', ArgSpec, z3.ArraySort(so.S, so.B))
as_arglist = z3.Function('as_arglist', ArgSpec, z3.SeqSort(so.S))
as_has_ann = z3.Function('as_has_ann', ArgSpec, so.S, so.B)
as_ann = z3.Function('as_ann', ArgSpec, so.S, Ty)
cls_argspec = z3.Function('cls_argspec', Ty, ArgSpec)


def dkeys(t):
    return PyV.py_keys(t)


def dvals(t):
    return PyV.py_vals(t)


def has_key(t, s):
    return z3.Contains(dkeys(t), z3.Unit(PyV.py_Str(s)))


def get_key(t, s):
    return seq_nth(dvals(t), z3.IndexOf(dkeys(t), z3.Unit(PyV.py_Str(s)),
                                        z3.IntVal(0)))


class VPy(V):
    __slots__ = ('t',)

    def __init__(self, t):
        self.t = t


interp.WRAPPERS[PyV] = VPy


class VPyPair(V):
    __slots__ = ('t',)

    def __init__(self, t):
        self.t = t


interp.WRAPPERS[PyPair] = VPyPair


class VArgs(VSetStr):
    """argspec.args: membership on the set view, slicing / iteration on the
    list view"""
    __slots__ = ('lst',)

    def __init__(self, t, lst):
        VSetStr.__init__(self, t)
        self.lst = lst

    @property
    def vals(self):
        return VSeq(self.lst, 'str')


class VPyODict(V):
    """OrderedDict(list of (key, value) tuples)"""
    __slots__ = ('items',)

    def __init__(self, items):
        self.items = items


class VArgSpec(V):
    __slots__ = ('t',)

    def __init__(self, t):
        self.t = t


class VAnnMap(V):
    """argspec.annotations"""
    __slots__ = ('t',)

    def __init__(self, t):
        self.t = t


interp.WRAPPERS[ArgSpec] = VArgSpec


class VPyItems(V):
    """dict.items() of a constructed dict"""
    __slots__ = ('t',)

    def __init__(self, t):
        self.t = t


def inst_term(o, t):
    """isinstance(o, t) for a type term t that is a class"""
    T = Ty
    return z3.If(t == T.ty_Str, PyV.is_py_Str(o), z3.If(
        t == T.ty_Int, z3.Or(PyV.is_py_Int(o), PyV.is_py_Bool(o)), z3.If(
            t == T.ty_Float, PyV.is_py_Float(o), z3.If(
                t == T.ty_Bool, PyV.is_py_Bool(o), z3.If(
                    t == T.ty_NoneType, PyV.is_py_None(o), z3.If(
                        t == T.ty_PyList, PyV.is_py_List(o), z3.If(
                            t == T.ty_PyDict, PyV.is_py_Dict(o),
                            ct_isinst(o, t))))))))


class PyValPlugin:
    def fresh_by_key(self, eng, key, prefix, st):
        if key == 'PyV':
            return VPy(fresh(prefix, PyV))
        if key == 'PyDict':
            v = fresh(prefix, PyV)
            st.assume(PyV.is_py_Dict(v))
            st.assume(seq_len(dkeys(v)) == seq_len(dvals(v)))
            return VPy(v)
        if key == 'ArgSpec':
            return VArgSpec(fresh(prefix, ArgSpec))
        return None

    def spec_name(self, eng, name):
        if name in ('represented_items', 'represented_tag', 'py_hasattr',
                    'py_attr', 'py_yattrs', 'mk_pypair', 'as_arglist',
                    'empty_pypairs', 'pp_k', 'pp_v'):
            return VExt('specb.' + name)
        if name in ('constructed', 'init_args', 'init_called'):
            return VExt('specb.' + name)
        if name in ('py_is_list', 'py_is_dict', 'py_is_bool', 'py_items',
                    'py_keys', 'py_vals', 'py_inst', 'py_has', 'py_get',
                    'py_is_str', 'py_str', 'py_type', 'as_args',
                    'as_has_ann', 'as_ann', 'cls_argspec', 'mk_py_str'):
            return VExt('specb.' + name)
        return None

    @staticmethod
    def _note(st, kind):
        vs = [n[1] for n in st.notes if isinstance(n, tuple) and n
              and n[0] == kind]
        return vs[-1] if vs else None

    def call_specb(self, eng, name, args, st, node):
        if name == 'py_is_list':
            return VBool(PyV.is_py_List(args[0].t))
        if name == 'py_is_dict':
            return VBool(PyV.is_py_Dict(args[0].t))
        if name == 'py_is_bool':
            return VBool(PyV.is_py_Bool(args[0].t))
        if name == 'py_items':
            return VSeq(PyV.py_items(args[0].t), 'pyv')
        if name == 'py_keys':
            return VSeq(PyV.py_keys(args[0].t), 'pyv')
        if name == 'py_vals':
            return VSeq(PyV.py_vals(args[0].t), 'pyv')
        if name == 'py_inst':
            t = eng.models.to_term(eng, args[1], Ty, st)
            return VBool(inst_term(args[0].t, t))
        if name == 'represented_items':
            v = self._note(st, 'represented')
            if v is None:
                raise Unsupported('represent_mapping was not called on this '
                                  'path', node)
            return v[1]
        if name == 'represented_tag':
            v = self._note(st, 'represented')
            if v is None:
                raise Unsupported('represent_mapping was not called on this '
                                  'path', node)
            return v[0]
        if name == 'py_hasattr':
            return VBool(py_hasattr(args[0].t, args[1].t))
        if name == 'py_attr':
            return VPy(py_attr(args[0].t, args[1].t))
        if name == 'py_yattrs':
            return VPy(py_yattrs(args[0].t))
        if name == 'mk_pypair':
            return VPyPair(PyPair.pp_mk(args[0].t, args[1].t))
        if name == 'pp_k':
            return VPy(PyPair.pp_k(args[0].t))
        if name == 'pp_v':
            return VPy(PyPair.pp_v(args[0].t))
        if name == 'as_arglist':
            return VSeq(as_arglist(args[0].t), 'str')
        if name == 'empty_pypairs':
            return VSeq(z3.Empty(PPSeq), 'pypair')
        if name == 'constructed':
            v = self._note(st, 'constructed')
            if v is None:
                raise Unsupported('nothing was constructed on this path',
                                  node)
            return v
        if name == 'init_called':
            return VBool(self._note(st, 'init') is not None)
        if name == 'init_args':
            v = self._note(st, 'init')
            if v is None:
                raise Unsupported('__init__ was not called on this path',
                                  node)
            return v
        if name == 'py_has':
            return VBool(has_key(args[0].t, args[1].t))
        if name == 'py_get':
            return VPy(get_key(args[0].t, args[1].t))
        if name == 'py_is_str':
            return VBool(PyV.is_py_Str(args[0].t))
        if name == 'py_str':
            return VStr(PyV.py_s(args[0].t))
        if name == 'mk_py_str':
            return VPy(PyV.py_Str(args[0].t))
        if name == 'py_type':
            return VTy(py_type(args[0].t))
        if name == 'as_args':
            return VSetStr(as_args(args[0].t))
        if name == 'as_has_ann':
            return VBool(as_has_ann(args[0].t, args[1].t))
        if name == 'as_ann':
            return VTy(as_ann(args[0].t, args[1].t))
        if name == 'cls_argspec':
            t = eng.models.to_term(eng, args[0], Ty, st)
            return VArgSpec(cls_argspec(t))
        return None

    def call_ext(self, eng, name, args, kwargs, st, node):
        if name == 'type' and len(args) == 1 and isinstance(args[0], VPy):
            return [(st, VTy(py_type(args[0].t)))]
        if name == 'hasattr' and len(args) == 2 and isinstance(
                args[0], VPy) and isinstance(args[1], VStr):
            eng.assume_note('E-ATTR: hasattr/getattr on the dumped object as '
                            'uninterpreted functions of (object, name)')
            return [(st, VBool(py_hasattr(args[0].t, args[1].t)))]
        if name == 'getattr' and len(args) == 2 and isinstance(
                args[0], VPy) and isinstance(args[1], VStr):
            return self.getattr_py(eng, args[0], args[1].t, st, node)
        if name == 'OrderedDict' and len(args) == 1 and isinstance(
                args[0], VSeq) and args[0].elem == 'pypair':
            return [(st, VPyODict(args[0].t))]
        if name == 'inspect.getfullargspec' and len(args) == 1 and \
                isinstance(args[0], VExtMethod) and \
                args[0].name == '__init__' and isinstance(args[0].recv, VPy):
            eng.assume_note('E-ARGSPEC: inspect.getfullargspec(obj.__init__) '
                            'is a function of the object\'s class')
            a = cls_argspec(py_type(args[0].recv.t))
            return [(st, VArgSpec(a))]
        if name == 'inspect.getfullargspec' and len(args) == 1 and \
                isinstance(args[0], VExtMethod) and \
                args[0].name == '__init__':
            t = eng.as_ty(args[0].recv)
            if t is None:
                return None
            eng.assume_note('E-ARGSPEC: inspect.getfullargspec(C.__init__) '
                            'is a function of the class; its first argument '
                            'is named self')
            a = cls_argspec(t)
            st.assume(z3.Select(as_args(a), z3.StringVal('self')))
            return [(st, VArgSpec(a))]
        return None

    def getattr_py(self, eng, o, name_t, st, node):
        out = []
        for s2, has in eng.branch(st, py_hasattr(o.t, name_t)):
            if has:
                out.append((s2, VPy(py_attr(o.t, name_t))))
            else:
                out.append((s2, Raise(VExc('AttributeError', (),
                                           getattr(node, 'lineno', 0)))))
        return out

    def elem_term(self, eng, v, st):
        if isinstance(v, VPyPair):
            return 'pypair', v.t
        if isinstance(v, VPy):
            return 'pyv', v.t
        if isinstance(v, VTuple) and len(v.items) == 2 and isinstance(
                v.items[1], VPy) and isinstance(v.items[0], (VStr, VPy)):
            k = v.items[0]
            kt = PyV.py_Str(k.t) if isinstance(k, VStr) else k.t
            return 'pypair', PyPair.pp_mk(kt, v.items[1].t)
        return None

    def zip_items(self, eng, d, st, node):
        """dict.items() as a Seq[PyPair]: the spec function zipkv"""
        ks, vs = dkeys(d), dvals(d)
        st.assume(seq_len(ks) == seq_len(vs))
        return eng.models.call_spec(eng, 'zipkv', [
            VSeq(ks, 'pyv'), VSeq(vs, 'pyv'), VInt(seq_len(ks))], st, node)

    def mutate(self, eng, target, recv, name, args, st, node):
        if name == 'extend' and isinstance(recv, (VSeq, VListC)) and \
                isinstance(args[0], VPyItems):
            if isinstance(recv, VListC):
                if recv.items:
                    return None
                base = z3.Empty(PPSeq)
            elif recv.elem == 'pypair':
                base = recv.t
            else:
                return None
            z = self.zip_items(eng, args[0].t, st, node)
            new = VSeq(z3.Concat(base, z.t), 'pypair')
            return eng.models.store_back(eng, target, new, st, node)
        return None

    def call_star(self, eng, e, st):
        """new_obj.__init__(**attrs): the user's __init__ runs with the
        attributes as keyword arguments; it may raise anything (H-NEW)"""
        import ast
        if not (isinstance(e.func, ast.Attribute)
                and e.func.attr == '__init__' and not e.args
                and len(e.keywords) == 1 and e.keywords[0].arg is None):
            return None
        out = []
        for s, vs in eng.evals([e.func.value, e.keywords[0].value], st):
            if isinstance(vs, Raise):
                out.append((s, vs))
                continue
            obj, kw = vs
            if not (isinstance(obj, VPy) and isinstance(kw, VPy)):
                return None
            eng.assume_note('H-NEW: a user __init__ may raise anything')
            for a in ((), (VStr(fresh('usermsg', so.S)),)):
                # with or without arguments: assert / raise ValueError
                bad = s.fork()
                bad.notes.append(('init', kw))
                out.append((bad, Raise(VExc('UserException', a,
                                            getattr(e, 'lineno', 0)))))
            s.notes.append(('init', kw))
            out.append((s, NONE))
        return out

    def contains(self, eng, container, x, st):
        if isinstance(container, VPy) and isinstance(x, VStr):
            if not st.entails(PyV.is_py_Dict(container.t)):
                raise Unsupported('in on a constructed value that is not '
                                  'known to be a dict')
            eng.assume_note('E-DICT: a key of a constructed dict equals a '
                            'str only if it is that str')
            return has_key(container.t, x.t)
        if isinstance(container, VSetStr) and isinstance(x, VPy):
            return z3.And(PyV.is_py_Str(x.t),
                          z3.Select(container.t, PyV.py_s(x.t)))
        if isinstance(container, VAnnMap) and isinstance(x, (VStr, VPy)):
            return as_has_ann(container.t, self._str(x, st))
        return None

    def _str(self, x, st):
        if isinstance(x, VStr):
            return x.t
        if not st.entails(PyV.is_py_Str(x.t)):
            raise Unsupported('constructed value used as a str key without '
                              'an isinstance check')
        return PyV.py_s(x.t)

    def subscript(self, eng, base, idx, st, node):
        if isinstance(base, VPy) and isinstance(idx, VStr):
            if not (st.entails(PyV.is_py_Dict(base.t))
                    and st.entails(has_key(base.t, idx.t))):
                raise Unsupported('mapping[name] without a preceding '
                                  '"name in mapping" check', node)
            return [(st, VPy(get_key(base.t, idx.t)))]
        if isinstance(base, VAnnMap) and isinstance(idx, (VStr, VPy)):
            k = self._str(idx, st)
            if not st.entails(as_has_ann(base.t, k)):
                raise Unsupported('annotations[key] without a preceding '
                                  'membership check', node)
            return [(st, VTy(as_ann(base.t, k)))]
        return None

    def coerce_arg(self, eng, v, key, st):
        if key == 'str' and isinstance(v, VPy) and st.entails(
                PyV.is_py_Str(v.t)):
            return VStr(PyV.py_s(v.t))
        return None

    def v_eq(self, eng, a, b, st):
        if isinstance(a, VStr) and isinstance(b, VPy):
            a, b = b, a
        if isinstance(a, VPy) and isinstance(b, VStr):
            return z3.And(PyV.is_py_Str(a.t), PyV.py_s(a.t) == b.t)
        if isinstance(a, VPy) and isinstance(b, VPy):
            if eng.mode == 'spec':
                return a.t == b.t
            raise Unsupported('== between constructed values')
        return None

    def nodeval_eq(self, eng, n, b, st):
        if isinstance(b, VPy):
            from .terms import nfield
            return z3.And(nfield(n, 'kind') == so.K_SCALAR,
                          PyV.is_py_Str(b.t),
                          nfield(n, 'val') == PyV.py_s(b.t))
        return None

    def isinstance_term(self, eng, v, c, st, node=None):
        if not isinstance(v, VPy):
            return None
        cname = c.name if isinstance(c, VExt) else None
        m = {'list': PyV.is_py_List(v.t), 'dict': PyV.is_py_Dict(v.t),
             'bool': PyV.is_py_Bool(v.t), 'str': PyV.is_py_Str(v.t),
             'int': z3.Or(PyV.is_py_Int(v.t), PyV.is_py_Bool(v.t)),
             'float': PyV.is_py_Float(v.t)}
        if cname in m:
            return m[cname]
        t = eng.as_ty(c)
        if t is not None:
            eng.assume_note('isinstance(obj, C) for user classes is an '
                            'uninterpreted relation (E-ISINSTANCE)')
            return inst_term(v.t, t)
        return None

    def iter_desc(self, eng, itv, st, node):
        if isinstance(itv, VPy):
            # iterating a constructed value: a list (its items) -- the code
            # has checked isinstance(obj, list) before
            if not st.entails(PyV.is_py_List(itv.t)):
                raise Unsupported('iteration over a constructed value that '
                                  'is not known to be a list', node)
            items = PyV.py_items(itv.t)
            return [(st, ('sym', lambda s: seq_len(items),
                          lambda s, i: VPy(seq_nth(items, i)), itv))]
        if isinstance(itv, VPyItems):
            ks, vs = PyV.py_keys(itv.t), PyV.py_vals(itv.t)
            st.assume(seq_len(ks) == seq_len(vs))
            return [(st, ('sym', lambda s: seq_len(ks),
                          lambda s, i: VTuple((VPy(seq_nth(ks, i)),
                                               VPy(seq_nth(vs, i)))), itv))]
        return None

    def call_method(self, eng, recv, name, args, kwargs, st, node):
        if isinstance(recv, VPy) and name == 'items':
            out = []
            for s2, isd in eng.branch(st, PyV.is_py_Dict(recv.t)):
                if isd:
                    out.append((s2, VPyItems(recv.t)))
                else:
                    out.append((s2, Raise(VExc('AttributeError', (),
                                               getattr(node, 'lineno', 0)))))
            return out
        if isinstance(recv, VPy) and name == '_yatiml_attributes' \
                and not args:
            eng.assume_note('H-ATTRS: _yatiml_attributes() is a function of '
                            'the object; it may raise anything')
            ln = getattr(node, 'lineno', 0)
            return [(st.fork(), Raise(VExc('UserException', (), ln))),
                    (st.fork(), Raise(VExc('UserException', (VStr(fresh(
                        'usermsg', so.S)),), ln))),
                    (st, VPy(py_yattrs(recv.t)))]
        if name == 'represent_mapping' and len(args) == 2:
            return self.represent_mapping(eng, args[0], args[1], st, node)
        if name == '__new__' and eng.as_ty(recv) is not None \
                and len(args) == 1:
            return [(st, VPy(PyV.py_Obj(eng.as_ty(recv),
                                        fresh('objid', so.I))))]
        if name == 'construct_mapping' and len(args) == 1:
            return self.construct_mapping(eng, args[0], st, node)
        if isinstance(recv, VPy) and name == 'keys':
            # only passed on to message helpers: an unconstrained list of
            # names (sound over-approximation)
            return [(st, VSeq(fresh('dkeys', z3.SeqSort(so.S)), 'str'))]
        return None

    def represent_mapping(self, eng, tag, attrs, st, node):
        """E-REPRESENT: dumper.represent_mapping(tag, mapping) builds a
        mapping node with that tag from the items of the mapping in their
        order (sort_keys=False is established by Dumper.__init__: C06 glue
        check), representing keys and values recursively; the representers of
        nested values may raise.  What it was called with is recorded as
        ghost state."""
        eng.assume_note('E-REPRESENT: represent_mapping(tag, mapping) builds '
                        'a mapping node with that tag from the items in '
                        'order; nested representers may raise')
        if isinstance(attrs, VPyODict):
            items = VSeq(attrs.items, 'pypair')
        elif isinstance(attrs, VPy):
            if not st.entails(PyV.is_py_Dict(attrs.t)):
                # not a dict: PyYAML fails on .items()
                out = []
                for s2, isd in eng.branch(st, PyV.is_py_Dict(attrs.t)):
                    if isd:
                        out.extend(self.represent_mapping(eng, tag, attrs,
                                                          s2, node))
                    else:
                        out.append((s2, Raise(VExc(
                            'AttributeError', (),
                            getattr(node, 'lineno', 0)))))
                return out
            items = self.zip_items(eng, attrs.t, st, node)
        else:
            return None
        line = getattr(node, 'lineno', 0)
        bad = st.fork()
        out = [(bad, Raise(VExc('RepresenterError', (VStr(fresh(
            'repmsg', so.S)),), line)))]
        st.notes.append(('represented', (tag, items)))
        from .terms import nfield
        n = fresh('represented', so.YNode)
        st.assume(so.is_N(n))
        st.assume(nfield(n, 'kind') == so.K_MAP)
        if isinstance(tag, VStr):
            st.assume(nfield(n, 'tag') == tag.t)
        out.append((st, st.new_root(n, 'n')))
        return out

    def construct_mapping(self, eng, nodev, st, node):
        """E-CONSTRUCT: loader.construct_mapping(node, deep=True) builds a
        dict from the node's pairs (every str key is the value of a key
        node), or raises a YAMLError, or a nested constructor's
        RecognitionError (whose message cites a position: the contracts of
        the four constructors)"""
        import ast
        eng.assume_note('E-CONSTRUCT: construct_mapping builds the dict from '
                        'the pairs of the node; YAMLError or a nested '
                        'constructor\'s RecognitionError otherwise')
        line = getattr(node, 'lineno', 0)
        n = eng.node_term(nodev, st)
        from .terms import nfield
        out = []
        bad = st.fork()
        out.append((bad, Raise(VExc('YAMLError', (VStr(fresh(
            'yamlmsg', so.S)),), line))))
        bad = st.fork()
        msg = VStr(fresh('nestedmsg', so.S))
        lam = ast.parse('lambda m: cites(m)', mode='eval').body
        bad.assume(eng.truth(eng.eval_clause_lambda(lam, [msg], bad), bad))
        out.append((bad, Raise(VExc('RecognitionError', (msg,), line))))
        m = fresh('constructed', PyV)
        st.assume(PyV.is_py_Dict(m))
        st.assume(seq_len(dkeys(m)) == seq_len(dvals(m)))
        kf = eng.models.call_spec(eng, 'keys_from', [
            VSeq(dkeys(m), 'pyv'), VSeq(nfield(n, 'pairs'), 'pair'),
            VInt(seq_len(dkeys(m)))], st, node)
        st.assume(eng.truth(kf, st))
        st.notes.append(('constructed', VPy(m)))
        out.append((st, VPy(m)))
        return out

    def obj_attr(self, eng, v, name, st):
        if name in ('construct_mapping', 'represent_mapping') and getattr(
                v, 'cls', 1) is None:
            return [(st, VExtMethod(v, name))]
        return None

    def value_attr(self, eng, v, name, st):
        if isinstance(v, VPy) and name == 'items':
            return [(st, VExtMethod(v, 'items'))]
        if isinstance(v, VArgSpec) and name == 'args':
            return [(st, VArgs(as_args(v.t), as_arglist(v.t)))]
        if isinstance(v, VPy) and name == '_yatiml_extra':
            return self.getattr_py(eng, v, z3.StringVal(name), st, None)
        if isinstance(v, VPy) and name in ('_yatiml_attributes', '__init__'):
            return [(st, VExtMethod(v, name))]
        if isinstance(v, VArgSpec) and name == 'annotations':
            return [(st, VAnnMap(v.t))]
        return None
