"""Build an engine over the repository and verify a list of functions."""
import os
import sys
import time
from .program import Program
from .contracts import ContractSet
from .specs import SpecLib
from .models import Models
from .stmts import Exec
from .vcgen import Verifier
from . import solve

VERIF = os.path.dirname(os.path.dirname(os.path.abspath(__file__)))


def default_plugins():
    from .plug_json import JsonPlugin
    from .plug_types import TypesPlugin
    from .plug_pyval import PyValPlugin
    return [TypesPlugin(), PyValPlugin(), JsonPlugin()]


def build(repo=None, opts=None, plugins=()):
    repo = repo or os.environ.get('VERIF_REPO', '/repo')
    plugins = list(plugins) + default_plugins()
    program = Program(repo)
    contracts = ContractSet(os.path.join(VERIF, 'contracts'))
    speclib = SpecLib(os.path.join(VERIF, 'spec'))
    models = Models()
    for p in plugins:
        models.plugins.append(p)
    o = {'fields': contracts.fields}
    o.update(opts or {})
    eng = Exec(program, contracts, speclib, models, o)
    for p in plugins:
        if hasattr(p, 'attach'):
            p.attach(eng)
    return eng, Verifier(eng)


def run(targets, budget=10, repo=None, opts=None, lemmas=True, plugins=(),
        verbose=False):
    t0 = time.time()
    eng, ver = build(repo, opts, plugins)
    missing = [t for t in targets if eng.contracts.get(t) is None]
    if missing:
        raise SystemExit('contracts missing for %s' % missing)
    if lemmas:
        ver.lemma_obligations()
    for t in targets:
        info = ver.verify(t)
        if verbose:
            print('  %-60s %s paths=%d obls=%d %s' % (
                t, info['status'], info['paths'], info['obligations'],
                info['reason']), file=sys.stderr)
    t1 = time.time()
    workdir = os.path.join(VERIF, '.work', 'run%d' % os.getpid())
    solve.discharge(ver, eng.obligations, budget=budget, workdir=workdir)
    try:
        os.rmdir(workdir)
    except OSError:
        pass
    return eng, ver, {'symexec_s': t1 - t0, 'solve_s': time.time() - t1}


if __name__ == '__main__':
    targets = sys.argv[1:]
    eng, ver, tm = run(targets, verbose=True)
    bad = 0
    for ob in eng.obligations:
        flag = 'OK ' if ob.status == 'unsat' else ob.status.upper()
        if ob.cls == 'canary':
            flag = 'OK(canary refuted)' if ob.status == 'sat' else 'BROKEN'
        if not flag.startswith('OK'):
            bad += 1
            print(flag, ob.group, '|', ob.label, '| line', ob.line, ob.note)
            if ob.model:
                for k, v in ob.model.items():
                    print('      ', k, '=', v[:300])
    print('%d obligations, %d not discharged; %s' % (
        len(eng.obligations), bad, tm))
