"""relang -- Python ``re`` patterns as SMT regular languages.

Translate the subset of Python ``re`` syntax used by PyYAML's implicit
resolver tables and by yatiml's loader into z3 regular expressions
(``ReSort(StringSort())`` terms) that have *exactly* the language of
``re.compile(pattern, flags).match(s) is not None`` (or of ``fullmatch``),
and decide inclusion / equivalence / emptiness of such languages for strings
of every length, with concrete witness strings on failure.

Dependencies: the standard library and ``z3`` only.  External solvers
(``/usr/bin/cvc5``, ``/usr/bin/z3``) are used, when present, as fall-back
decision procedures through SMT-LIB text; they are always run under a
wall-clock timeout.

Semantics implemented (these are the whole point)
--------------------------------------------------
* ``match()`` is a PREFIX match: unless the pattern is end-anchored the
  language is ``L . Sigma*``.  ``^(?:true|True)`` matches ``"trueish"``.
* ``$`` (no re.M) holds at the very end of the string OR just before a final
  ``"\\n"`` that ends the string: ``^a$`` matches ``"a"`` and ``"a\\n"`` but
  not ``"a\\nb"`` or ``"a\\n\\n"``.  ``\\Z`` holds only at the very end.
* ``^`` / ``\\A`` at the start are no-ops for ``match()`` / ``fullmatch()``.
* End anchors are handled by a continuation-passing translation
  ``tr(seq, k)`` where ``k`` describes what may follow: an end anchor is a
  look-ahead that restricts the *whole remaining suffix*, so
  ``$`` = ``k & {"", "\\n"}`` and ``\\Z`` = ``k & {""}``.  A pattern may be
  anchored in some alternatives and not in others (``^(?:a$|b)``).
  By default (``STRICT_ANCHORS = True``) end anchors are accepted only in
  *tail position* (the continuation is the top-level tail, possibly already
  restricted by other end anchors); anywhere else ``Unsupported`` is raised.
  With ``STRICT_ANCHORS = False`` the general (still exact) intersection
  form is produced.  End anchors inside repetitions are always Unsupported.
* Greedy and lazy quantifiers have the same language.  Possessive
  quantifiers and atomic groups do not, and are Unsupported.

Alphabet
--------
SMT-LIB strings range over code points 0 .. 0x2FFFF; Python ``str`` goes up
to 0x10FFFF.  All statements made by this module quantify over strings whose
code points are <= 0x2FFFF.  Patterns that explicitly mention a code point
above ``MAX_PATTERN_CHAR`` (0x2FFFD) are Unsupported, so that U+2FFFE/U+2FFFF
are always "generic" characters; a pattern of the supported subset cannot
tell a character above 0x2FFFF from those (unless Unicode categories are
involved, see below), which is why results lift to all Python strings.

Approximations
--------------
``\\d``, ``\\s``, ``\\w`` in ``str`` patterns are Unicode categories in
Python 3.  In the default ``CATEGORY_MODE = 'approx'`` they are modelled by
their restriction to ASCII (``\\d`` = [0-9]; ``\\s`` = [\\t-\\r\\x1c-\\x1f ];
``\\w`` = [0-9A-Za-z_]): the translation is then exact on all-ASCII strings
only (pass an ASCII ``domain`` to get exact verdicts), a note is appended to
the module-level list ``approximations``, and every complemented use
(``\\D \\S \\W`` or a category inside ``[^...]``) raises Unsupported.
With re.ASCII the categories are exactly the ASCII sets and nothing is
approximate.  ``CATEGORY_MODE = 'exact'`` computes the category sets from
this interpreter's own ``re`` (code points <= 0x2FFFF) -- exact, complement
allowed, but the regexes get large.

Witness validation
------------------
Every witness returned with verdict False was (1) re-checked against the z3
regexes by ground evaluation (``member``) and (2) when a regex came from
``match_lang`` / ``fullmatch_lang`` / ``lit_union`` -- this provenance is
remembered per z3 term -- re-checked against Python's own ``re`` (helper
``check_witness``).  A witness that Python's ``re`` rejects raises
``WitnessMismatch`` (a translation bug) unless the translation involved was
approximate, in which case the verdict is None with the reason.
"""

from __future__ import annotations

import ast as _ast
import ctypes as _ctypes
import json as _json
import os as _os
import re
import subprocess as _subprocess
import tempfile as _tempfile
import time as _time

import z3

try:                                    # Python >= 3.11
    import re._parser as _parser
    import re._constants as _c
    import re._casefix as _casefix
except ImportError:                     # pragma: no cover  (older Pythons)
    import sre_parse as _parser         # type: ignore
    import sre_constants as _c          # type: ignore
    _casefix = None                     # type: ignore
import _sre

__all__ = [
    'Unsupported', 'WitnessMismatch', 'approximations',
    'match_lang', 'fullmatch_lang', 'lit_union',
    'included', 'equivalent', 'is_empty', 'member',
    'check_witness', 'provenance', 'to_smtlib', 'smtlib_query',
    'dump_pyyaml_resolver_table', 'extract_compile_calls',
    'STRICT_ANCHORS', 'CATEGORY_MODE', 'last_info',
]


class Unsupported(Exception):
    """The pattern uses a construct outside the supported subset."""


class WitnessMismatch(RuntimeError):
    """A solver witness was rejected by Python's own ``re`` although the
    translation was claimed exact: a bug in relang (or in a solver)."""


# --------------------------------------------------------------------------
# configuration / diagnostics

#: notes about approximate translations (see module docstring)
approximations: list = []

#: accept end anchors in tail position only (see module docstring)
STRICT_ANCHORS = True

#: 'approx' (ASCII restriction + note) or 'exact' (scan this Python's re)
CATEGORY_MODE = 'approx'

#: diagnostics of the most recent included()/is_empty() query
last_info: dict = {}

CVC5 = '/usr/bin/cvc5'
Z3CLI = '/usr/bin/z3'
DEFAULT_BACKENDS = ('z3api', 'cvc5', 'z3cli')

MAX_SMT_CHAR = 0x2FFFF          # largest SMT-LIB character
MAX_PATTERN_CHAR = 0x2FFFD      # largest code point a pattern may mention

_S = z3.StringSort()
_RS = z3.ReSort(_S)
_VAR = 'relang_s'


# --------------------------------------------------------------------------
# strings <-> z3 / SMT-LIB

def _smt_escape(s: str) -> str:
    """SMT-LIB 2.6 string-literal body for the python string ``s``: printable
    ASCII except backslash and double quote stays, the rest is ``\\u{h}``."""
    out = []
    for ch in s:
        o = ord(ch)
        if o > MAX_SMT_CHAR:
            raise Unsupported('character U+%X is outside the SMT-LIB '
                              'alphabet (max U+2FFFF)' % o)
        if 32 <= o < 127 and ch not in '\\"':
            out.append(ch)
        else:
            out.append('\\u{%x}' % o)
    return ''.join(out)


_UNESC = re.compile(r'\\u\{([0-9a-fA-F]{1,5})\}|\\u([0-9a-fA-F]{4})')


def _smt_unescape(body: str) -> str:
    """Inverse of the printers of cvc5 / z3: ``body`` is the text between the
    quotes of an SMT-LIB string literal."""
    body = body.replace('""', '"')
    return _UNESC.sub(lambda m: chr(int(m.group(1) or m.group(2), 16)), body)


def _sv(s: str) -> z3.SeqRef:
    """Exact z3 string value of a python str (z3.StringVal interprets
    ``\\u{..}`` escapes in its argument, so backslashes must be escaped)."""
    return z3.StringVal(_smt_escape(s))


def _string_value(v) -> str:
    """Exact python str of a z3 string *value* term."""
    if not z3.is_string_value(v):
        raise ValueError('not a string value: %s' % v)
    ctx, a = v.ctx_ref(), v.as_ast()
    n = z3.Z3_get_string_length(ctx, a)
    if n == 0:
        return ''
    arr = (_ctypes.c_uint * n)()
    z3.Z3_get_string_contents(ctx, a, n, arr)
    return ''.join(map(chr, arr))


# --------------------------------------------------------------------------
# small regex constructors

_EPS = z3.Re(_sv(''))
_FULL = z3.Full(_RS)
_ALLCHAR = z3.AllChar(_RS)
_NONE = z3.Empty(_RS)


def _is_eps(r) -> bool:
    return r.eq(_EPS)


def _cat(*rs):
    rs = [r for r in rs if not _is_eps(r)]
    if not rs:
        return _EPS
    if len(rs) == 1:
        return rs[0]
    return z3.Concat(*rs)


def _alt(rs):
    out = []
    for r in rs:
        if not any(r.eq(o) for o in out):
            out.append(r)
    if not out:
        return _NONE
    if len(out) == 1:
        return out[0]
    return z3.Union(*out)


def _ch(o: int):
    return z3.Re(_sv(chr(o)))


def _ranges_re(ranges):
    """z3 regex (language of one-character strings) for sorted disjoint
    code-point ranges."""
    parts = []
    for lo, hi in ranges:
        if lo == hi:
            parts.append(_ch(lo))
        else:
            parts.append(z3.Range(_sv(chr(lo)), _sv(chr(hi))))
    return _alt(parts)


def _norm_ranges(ranges):
    out = []
    for lo, hi in sorted(ranges):
        if out and lo <= out[-1][1] + 1:
            if hi > out[-1][1]:
                out[-1] = (out[-1][0], hi)
        else:
            out.append((lo, hi))
    return out


def _negated(r):
    """One character that is not in the one-character language ``r``."""
    return z3.Intersect(_ALLCHAR, z3.Complement(r))


def lit_union(strings) -> z3.ReRef:
    """Finite language: exactly the given python strings."""
    strs = sorted(set(strings))
    for s in strs:
        if not isinstance(s, str):
            raise TypeError('lit_union wants str elements')
    r = _alt([z3.Re(_sv(s)) for s in strs])
    _remember(r, {'kind': 'lits', 'strings': frozenset(strs), 'approx': []})
    return r


# --------------------------------------------------------------------------
# provenance of translated regexes (for witness validation)

_PROV: dict = {}


def _remember(r, info):
    _PROV[r.get_id()] = (r, info)       # keeps r alive => id stays unique


def provenance(r):
    """Info dict for a regex built by match_lang / fullmatch_lang /
    lit_union ({'kind','pattern','flags','approx'} or {'kind':'lits',..}),
    None for anything else."""
    e = _PROV.get(r.get_id())
    if e is not None and e[0].eq(r):
        return e[1]
    return None


def check_witness(pattern: str, flags: int, s: str, mode: str = 'match') -> bool:
    """What Python itself says: ``re.compile(pattern, flags).match(s) is not
    None`` (``mode='fullmatch'``: ``.fullmatch(s)``).  Used to re-validate
    every witness against the real ``re`` engine."""
    c = re.compile(pattern, flags)
    m = c.fullmatch(s) if mode == 'fullmatch' else c.match(s)
    return m is not None


def _python_truth(info, s):
    if info['kind'] == 'lits':
        return s in info['strings']
    return check_witness(info['pattern'], info['flags'], s, info['kind'])


# --------------------------------------------------------------------------
# case folding tables (re.IGNORECASE), built lazily from the interpreter's
# own tables so that they are exactly what sre uses

_LOWER_PRE = None


def _lower_preimage():
    """dict lo -> sorted list of code points x (<= 0x2FFFF) with
    _sre.unicode_tolower(x) == lo."""
    global _LOWER_PRE
    if _LOWER_PRE is None:
        pre: dict = {}
        tl = _sre.unicode_tolower
        for x in range(MAX_SMT_CHAR + 1):
            pre.setdefault(tl(x), []).append(x)
        _LOWER_PRE = pre
    return _LOWER_PRE


def _fold_set(codes, ascii_mode):
    """Set of code points that match, under re.IGNORECASE, a (positive) set of
    literal ASCII code points.  Mirrors sre's compiler/matcher: x matches iff
    lower(x) is in {lower(c)} + extra-case 'fixes' of lower(c)."""
    out = set()
    if ascii_mode:
        targets = {_sre.ascii_tolower(c) for c in codes}
        for x in range(128):
            if _sre.ascii_tolower(x) in targets:
                out.add(x)
        # ascii_tolower is the identity outside ASCII
        out |= {c for c in targets if c >= 128}
        return out
    fixes = getattr(_casefix, '_EXTRA_CASES', {}) if _casefix else {}
    targets = set()
    for c in codes:
        lo = _sre.unicode_tolower(c)
        targets.add(lo)
        targets.update(fixes.get(lo, ()))
    pre = _lower_preimage()
    for t in targets:
        out.update(pre.get(t, ()))
    return out


# --------------------------------------------------------------------------
# categories

_ASCII_CATS = {
    'DIGIT': [(48, 57)],
    'SPACE': [(9, 13), (32, 32)],
    'WORD': [(48, 57), (65, 90), (95, 95), (97, 122)],
}
# restriction of the *Unicode* categories to ASCII (str.isspace() is true for
# the separators 0x1c..0x1f)
_UNI_ASCII_CATS = {
    'DIGIT': [(48, 57)],
    'SPACE': [(9, 13), (28, 32)],
    'WORD': [(48, 57), (65, 90), (95, 95), (97, 122)],
}
_CAT_ESC = {'DIGIT': r'\d', 'SPACE': r'\s', 'WORD': r'\w'}
_SCAN_CACHE: dict = {}


def _scan_category(name, ignorecase):
    key = (name, bool(ignorecase))
    if key not in _SCAN_CACHE:
        c = re.compile(_CAT_ESC[name], re.I if ignorecase else 0)
        rs, start, prev = [], None, None
        for x in range(MAX_SMT_CHAR + 1):
            if c.match(chr(x)):
                if start is None:
                    start = x
                prev = x
            elif start is not None:
                rs.append((start, prev))
                start = None
        if start is not None:
            rs.append((start, prev))
        _SCAN_CACHE[key] = rs
    return _SCAN_CACHE[key]


def _cat_name(av):
    n = str(av)
    if not n.startswith('CATEGORY_'):
        raise Unsupported('unknown category %r' % (av,))
    n = n[len('CATEGORY_'):]
    neg = n.startswith('NOT_')
    if neg:
        n = n[4:]
    if n not in _CAT_ESC:
        raise Unsupported('category %s is not supported' % av)
    return n, neg


# --------------------------------------------------------------------------
# continuations for the end-anchor aware translation

_ANY = 'ANY'


class _Cont:
    """What may follow.  Either the top-level *tail* -- ``tail`` is _ANY
    (Sigma*) or a finite frozenset of python strings (the only suffixes still
    allowed) -- or an arbitrary regex."""

    __slots__ = ('tail', 'rx')

    def __init__(self, tail=None, rx=None):
        self.tail, self.rx = tail, rx

    def regex(self):
        if self.rx is not None:
            return self.rx
        if self.tail is _ANY:
            return _FULL
        return _alt([z3.Re(_sv(s)) for s in sorted(self.tail)])

    def restrict(self, allowed, what):
        """Continuation for an end anchor that allows exactly the suffixes in
        ``allowed`` (a frozenset of strings)."""
        if self.rx is None:
            if self.tail is _ANY:
                return _Cont(tail=frozenset(allowed))
            return _Cont(tail=frozenset(self.tail) & frozenset(allowed))
        if STRICT_ANCHORS:
            raise Unsupported('%s is followed by more pattern (end anchors '
                              'are supported in tail position only; set '
                              'relang.STRICT_ANCHORS = False for the general '
                              'look-ahead translation)' % what)
        lits = _alt([z3.Re(_sv(s)) for s in sorted(allowed)])
        return _Cont(rx=z3.Intersect(self.rx, lits))

    @staticmethod
    def union(conts):
        if all(c.rx is None for c in conts):
            if any(c.tail is _ANY for c in conts):
                return _Cont(tail=_ANY)
            acc = frozenset()
            for c in conts:
                acc |= c.tail
            return _Cont(tail=acc)
        return _Cont(rx=_alt([c.regex() for c in conts]))


# --------------------------------------------------------------------------
# the translator

_I, _S_, _X, _U, _A, _M, _L = (int(re.I), int(re.S), int(re.X), int(re.U),
                               int(re.A), int(re.M), int(re.L))
_DEBUG = int(re.DEBUG)
_OK_FLAGS = _I | _S_ | _X | _U | _A | _DEBUG

_BEGIN_ATS = (_c.AT_BEGINNING, _c.AT_BEGINNING_STRING)
_REPEATS = (_c.MAX_REPEAT, _c.MIN_REPEAT)


class _Translator:

    def __init__(self, pattern):
        self.pattern = pattern
        self.notes = []

    # -- flags ------------------------------------------------------------

    def check_flags(self, flags):
        if flags & _M:
            raise Unsupported('re.MULTILINE is not supported')
        if flags & _L:
            raise Unsupported('re.LOCALE is not supported')
        bad = flags & ~_OK_FLAGS
        if bad:
            raise Unsupported('unsupported flag bits %#x' % bad)

    def note(self, msg):
        full = 'pattern %r: %s' % (self.pattern, msg)
        if full not in self.notes:
            self.notes.append(full)
        if full not in approximations:
            approximations.append(full)

    # -- structure queries ------------------------------------------------

    def has_end(self, items):
        for op, av in items:
            if op is _c.AT:
                if av in (_c.AT_END, _c.AT_END_STRING, _c.AT_END_LINE):
                    return True
            elif op is _c.BRANCH:
                if any(self.has_end(b) for b in av[1]):
                    return True
            elif op is _c.SUBPATTERN:
                if self.has_end(av[3]):
                    return True
            elif op in _REPEATS or op is getattr(_c, 'POSSESSIVE_REPEAT', None):
                if self.has_end(av[2]):
                    return True
            elif op is getattr(_c, 'ATOMIC_GROUP', None):
                if self.has_end(av):
                    return True
            elif op in (_c.ASSERT, _c.ASSERT_NOT):
                if self.has_end(av[1]):
                    return True
            elif op is _c.GROUPREF_EXISTS:
                if self.has_end(av[1]) or (av[2] and self.has_end(av[2])):
                    return True
        return False

    # -- single characters -------------------------------------------------

    def check_code(self, o, flags):
        if o > MAX_PATTERN_CHAR:
            raise Unsupported('pattern mentions U+%X, above the supported '
                              'maximum U+%X' % (o, MAX_PATTERN_CHAR))
        if flags & _I and o >= 128:
            raise Unsupported('re.IGNORECASE combined with the non-ASCII '
                              'character U+%04X' % o)

    def literal_ranges(self, ranges, flags):
        """Ranges of code points matched by a positive set of literal
        characters / ranges under the given flags."""
        for lo, hi in ranges:
            self.check_code(lo, flags)
            self.check_code(hi, flags)
            if lo > hi:
                raise Unsupported('bad character range')
        if not (flags & _I):
            return _norm_ranges(ranges)
        codes = set()
        for lo, hi in ranges:           # ASCII only here (check_code)
            codes.update(range(lo, hi + 1))
        folded = _fold_set(codes, bool(flags & _A))
        return _norm_ranges([(x, x) for x in folded])

    def category(self, av, flags, negated_context):
        """(ranges, exact?) of a category; raises Unsupported for complemented
        uses of an approximated category."""
        name, neg = _cat_name(av)
        if flags & _A:
            rs, exact = _ASCII_CATS[name], True
        elif CATEGORY_MODE == 'exact':
            rs, exact = _scan_category(name, flags & _I), True
        elif CATEGORY_MODE == 'approx':
            rs, exact = _UNI_ASCII_CATS[name], False
        else:
            raise ValueError('bad relang.CATEGORY_MODE %r' % (CATEGORY_MODE,))
        if not exact:
            if neg or negated_context:
                raise Unsupported(
                    'complemented use of the Unicode category %s: it is only '
                    'modelled approximately (ASCII part), whose complement '
                    'would be unsound; use re.ASCII or '
                    'relang.CATEGORY_MODE = "exact"' % _CAT_ESC[name])
            self.note('%s modelled by its ASCII part %s only (exact on '
                      'all-ASCII strings; non-ASCII members of the Unicode '
                      'category are NOT in the SMT language)'
                      % (_CAT_ESC[name], rs))
        return rs, neg

    def char_class(self, items, flags):
        negate = False
        lits, pos, negcats = [], [], []
        items = list(items)
        if items and items[0][0] is _c.NEGATE:
            negate = True
            items = items[1:]
        for op, av in items:
            if op is _c.LITERAL:
                lits.append((av, av))
            elif op is _c.RANGE:
                lits.append((av[0], av[1]))
            elif op is _c.CATEGORY:
                rs, neg = self.category(av, flags, negate)
                (negcats if neg else pos).append(rs)
            else:
                raise Unsupported('unsupported item %s in character class'
                                  % (op,))
        ranges = self.literal_ranges(lits, flags) if lits else []
        for rs in pos:
            ranges = ranges + list(rs)
        parts = []
        ranges = _norm_ranges(ranges)
        if ranges:
            parts.append(_ranges_re(ranges))
        for rs in negcats:              # exact categories only
            parts.append(_negated(_ranges_re(_norm_ranges(rs))))
        r = _alt(parts)
        return _negated(r) if negate else r

    # -- compositional translation (no end anchors allowed) ----------------

    def sub_flags(self, flags, add, dele):
        nf = (flags | add) & ~dele
        self.check_flags(nf)
        return nf

    def plain_seq(self, items, flags, at_start):
        parts = []
        for it in items:
            parts.append(self.plain_item(it, flags, at_start))
            at_start = at_start and it[0] is _c.AT and it[1] in _BEGIN_ATS
        return _cat(*parts)

    def plain_item(self, item, flags, at_start):
        op, av = item
        if op is _c.LITERAL:
            return _ranges_re(self.literal_ranges([(av, av)], flags))
        if op is _c.NOT_LITERAL:
            return _negated(_ranges_re(self.literal_ranges([(av, av)], flags)))
        if op is _c.ANY:
            return _ALLCHAR if flags & _S_ else _negated(_ch(10))
        if op is _c.IN:
            return self.char_class(av, flags)
        if op is _c.BRANCH:
            return _alt([self.plain_seq(b, flags, at_start) for b in av[1]])
        if op is _c.SUBPATTERN:
            _group, add, dele, p = av
            return self.plain_seq(p, self.sub_flags(flags, add, dele), at_start)
        if op in _REPEATS:
            lo, hi, p = av
            if self.has_end(p):
                raise Unsupported('end anchor inside a repetition')
            body = self.plain_seq(p, flags, False)
            return self.loop(body, lo, hi)
        if op is _c.AT:
            if av in _BEGIN_ATS:
                if at_start:
                    return _EPS
                raise Unsupported("'^' / '\\A' somewhere else than at the "
                                  "beginning (of the pattern, of a leading "
                                  "group or of a leading alternative)")
            if av in (_c.AT_END, _c.AT_END_STRING):
                raise Unsupported('end anchor in an unsupported position')
            raise Unsupported('unsupported assertion %s' % (av,))
        self.refuse(op)

    def refuse(self, op):
        names = {
            _c.ASSERT: 'lookahead/lookbehind assertion',
            _c.ASSERT_NOT: 'negative lookahead/lookbehind assertion',
            _c.GROUPREF: 'backreference',
            _c.GROUPREF_EXISTS: 'conditional group',
        }
        for nm, txt in (('ATOMIC_GROUP', 'atomic group'),
                        ('POSSESSIVE_REPEAT', 'possessive quantifier')):
            k = getattr(_c, nm, None)
            if k is not None:
                names[k] = txt
        raise Unsupported('%s is not supported' % names.get(op, 'construct %s' % (op,)))

    def loop(self, body, lo, hi):
        unbounded = hi is _c.MAXREPEAT or hi == _c.MAXREPEAT
        if unbounded:
            if lo == 0:
                return z3.Star(body)
            if lo == 1:
                return z3.Plus(body)
            return _cat(z3.Loop(body, lo, lo), z3.Star(body))
        if hi < lo:
            raise Unsupported('bad repetition bounds')
        if hi == 0:
            return _EPS                 # NB z3.Loop(r, 0, 0) would be r*
        if (lo, hi) == (1, 1):
            return body
        if (lo, hi) == (0, 1):
            return z3.Option(body)
        return z3.Loop(body, lo, hi)

    # -- continuation-passing translation (end anchors) ---------------------

    def cps_seq(self, items, flags, at_start, cont):
        items = list(items)
        if not items:
            return cont
        if not self.has_end(items):
            r = self.plain_seq(items, flags, at_start)
            if _is_eps(r):
                return cont
            return _Cont(rx=_cat(r, cont.regex()))
        head, rest = items[0], items[1:]
        op, av = head
        next_start = at_start and op is _c.AT and av in _BEGIN_ATS
        k = self.cps_seq(rest, flags, next_start, cont)
        if op is _c.AT:
            if av in _BEGIN_ATS:
                self.plain_item(head, flags, at_start)      # position check
                return k
            if av is _c.AT_END:
                return k.restrict(('', '\n'), "'$'")
            if av is _c.AT_END_STRING:
                return k.restrict(('',), "'\\Z'")
            raise Unsupported('unsupported assertion %s' % (av,))
        if not self.has_end([head]):
            r = self.plain_item(head, flags, at_start)
            if _is_eps(r):
                return k
            return _Cont(rx=_cat(r, k.regex()))
        if op is _c.BRANCH:
            return _Cont.union([self.cps_seq(b, flags, at_start, k)
                                for b in av[1]])
        if op is _c.SUBPATTERN:
            _group, add, dele, p = av
            return self.cps_seq(p, self.sub_flags(flags, add, dele),
                                at_start, k)
        if op in _REPEATS:
            raise Unsupported('end anchor inside a repetition')
        self.refuse(op)


def _translate(pattern, flags, kind):
    if not isinstance(pattern, str):
        raise Unsupported('only str patterns are supported (got %s)'
                          % type(pattern).__name__)
    flags = int(flags)
    try:
        tree = _parser.parse(pattern, flags)
    except re.error as e:
        raise Unsupported('re cannot parse the pattern: %s' % e)
    eff = int(tree.state.flags)         # includes inline global flags
    t = _Translator(pattern)
    t.check_flags(eff)
    start = _Cont(tail=_ANY) if kind == 'match' else _Cont(tail=frozenset(['']))
    r = t.cps_seq(list(tree), eff, True, start).regex()
    _remember(r, {'kind': kind, 'pattern': pattern, 'flags': flags,
                  'approx': list(t.notes)})
    return r


def match_lang(pattern: str, flags: int = 0) -> z3.ReRef:
    """z3 regex R such that for every str s (code points <= 0x2FFFF):
    ``re.compile(pattern, flags).match(s) is not None  <=>  s in R``.

    match() is a PREFIX match: unless end-anchored the language is
    ``L . Sigma*``.  ``$`` (no re.M): at the very end or just before a final
    newline; ``\\Z``: only at the very end; ``^`` / ``\\A`` at the start are
    no-ops.  Raises Unsupported outside the supported subset."""
    return _translate(pattern, flags, 'match')


def fullmatch_lang(pattern: str, flags: int = 0) -> z3.ReRef:
    """z3 regex of ``re.compile(pattern, flags).fullmatch(s) is not None``."""
    return _translate(pattern, flags, 'fullmatch')


# --------------------------------------------------------------------------
# concrete membership

def member(s: str, r, timeout_s: float = 10) -> bool:
    """Is the concrete python string ``s`` in the z3 regex ``r``?  Decided by
    z3: ground simplification first, a solver call (with timeout) if that does
    not reduce to true/false.  Raises RuntimeError when undecided."""
    f = z3.simplify(z3.InRe(_sv(s), r))
    if z3.is_true(f):
        return True
    if z3.is_false(f):
        return False
    sol = z3.Solver()
    sol.set('timeout', int(timeout_s * 1000))
    sol.add(f)
    res = sol.check()
    if res == z3.sat:
        return True
    if res == z3.unsat:
        return False
    raise RuntimeError('member(%r, ...) undecided: %s'
                       % (s, sol.reason_unknown()))


# --------------------------------------------------------------------------
# SMT-LIB export (own printer: exact string escaping, portable operators)

def to_smtlib(r) -> str:
    """SMT-LIB 2.6 text of a z3 regex term (understood by cvc5 1.x and
    z3 4.8.x)."""
    memo: dict = {}

    def lit(v):
        return '"%s"' % _smt_escape(_string_value(v))

    def go(e):
        key = e.get_id()
        if key in memo:
            return memo[key]
        k = e.decl().kind()
        ch = [go(c) for c in e.children()] if k != z3.Z3_OP_SEQ_TO_RE \
            and k != z3.Z3_OP_RE_RANGE else None

        def nary(op):
            if len(ch) == 1:
                return ch[0]
            return '(%s %s)' % (op, ' '.join(ch))

        if k == z3.Z3_OP_SEQ_TO_RE:
            out = '(str.to_re %s)' % lit(e.arg(0))
        elif k == z3.Z3_OP_RE_RANGE:
            out = '(re.range %s %s)' % (lit(e.arg(0)), lit(e.arg(1)))
        elif k == z3.Z3_OP_RE_UNION:
            out = nary('re.union')
        elif k == z3.Z3_OP_RE_CONCAT:
            out = nary('re.++')
        elif k == z3.Z3_OP_RE_INTERSECT:
            out = nary('re.inter')
        elif k == z3.Z3_OP_RE_DIFF:
            out = '(re.diff %s)' % ' '.join(ch)
        elif k == z3.Z3_OP_RE_STAR:
            out = '(re.* %s)' % ch[0]
        elif k == z3.Z3_OP_RE_PLUS:
            out = '(re.+ %s)' % ch[0]
        elif k == z3.Z3_OP_RE_OPTION:
            out = '(re.opt %s)' % ch[0]
        elif k == z3.Z3_OP_RE_COMPLEMENT:
            out = '(re.comp %s)' % ch[0]
        elif k == z3.Z3_OP_RE_LOOP:
            ps = e.params()
            if len(ps) == 2:
                out = '((_ re.loop %d %d) %s)' % (ps[0], ps[1], ch[0])
            elif len(ps) == 1:          # lo or more
                out = '(re.++ ((_ re.loop %d %d) %s) (re.* %s))' % (
                    ps[0], ps[0], ch[0], ch[0])
            else:
                raise Unsupported('re.loop with symbolic bounds')
        elif k == z3.Z3_OP_RE_POWER:
            out = '((_ re.^ %d) %s)' % (e.params()[0], ch[0])
        elif k == z3.Z3_OP_RE_FULL_SET:
            out = 're.all'
        elif k == z3.Z3_OP_RE_FULL_CHAR_SET:
            out = 're.allchar'
        elif k == z3.Z3_OP_RE_EMPTY_SET:
            out = 're.none'
        else:
            raise Unsupported('cannot export regex operator %s to SMT-LIB'
                              % e.decl().name())
        memo[key] = out
        return out

    return go(r)


def smtlib_query(pos, neg, comment='') -> str:
    """SMT-LIB script: is there a string in every regex of ``pos`` and in no
    regex of ``neg``?  (sat => (get-value) prints the witness)"""
    lines = []
    for ln in comment.splitlines():
        lines.append('; ' + ln)
    lines += ['(set-logic QF_SLIA)',
              '(set-option :produce-models true)',
              '(declare-fun %s () String)' % _VAR]
    for r in pos:
        lines.append('(assert (str.in_re %s %s))' % (_VAR, to_smtlib(r)))
    for r in neg:
        lines.append('(assert (not (str.in_re %s %s)))' % (_VAR, to_smtlib(r)))
    lines += ['(check-sat)', '(get-value (%s))' % _VAR, '']
    return '\n'.join(lines)


_VALUE_RE = re.compile(r'\(\(\s*' + _VAR + r'\s+"((?:[^"]|"")*)"\s*\)\)', re.S)


def _parse_cli_output(out):
    """-> ('sat', witness) | ('unsat', None) | ('unknown', reason)"""
    lines = [ln.strip() for ln in out.strip().splitlines() if ln.strip()]
    if not lines:
        return 'unknown', 'no output'
    first = lines[0]
    if first == 'unsat':
        return 'unsat', None
    if first == 'sat':
        m = _VALUE_RE.search(out)
        if not m:
            return 'unknown', 'sat but no parsable model: %r' % out[:200]
        return 'sat', _smt_unescape(m.group(1))
    return 'unknown', ' / '.join(lines)[:300]


def _run_cli(argv, script, timeout_s):
    fd, path = _tempfile.mkstemp(suffix='.smt2', prefix='relang_')
    try:
        with _os.fdopen(fd, 'w', encoding='ascii') as f:
            f.write(script)
        try:
            p = _subprocess.run(argv + [path], stdout=_subprocess.PIPE,
                                stderr=_subprocess.PIPE, text=True,
                                timeout=timeout_s + 2)
        except _subprocess.TimeoutExpired:
            return 'unknown', 'timeout after %ss' % timeout_s
        except OSError as e:
            return 'unknown', 'cannot run %s: %s' % (argv[0], e)
        return _parse_cli_output(p.stdout + '\n' + p.stderr
                                 if not p.stdout.strip() else p.stdout)
    finally:
        try:
            _os.unlink(path)
        except OSError:
            pass


def _backend(name, pos, neg, timeout_s):
    """-> ('sat', witness str) | ('unsat', None) | ('unknown', reason)"""
    if name == 'z3api':
        sol = z3.Solver()
        sol.set('timeout', max(1, int(timeout_s * 1000)))
        x = z3.String(_VAR)
        for r in pos:
            sol.add(z3.InRe(x, r))
        for r in neg:
            sol.add(z3.Not(z3.InRe(x, r)))
        res = sol.check()
        if res == z3.unsat:
            return 'unsat', None
        if res == z3.sat:
            v = sol.model().eval(x, model_completion=True)
            try:
                return 'sat', _string_value(v)
            except ValueError as e:
                return 'unknown', 'sat but model is not a value: %s' % e
        return 'unknown', sol.reason_unknown()
    if name in ('cvc5', 'z3cli', 'z3new'):
        try:
            script = smtlib_query(pos, neg)
        except Unsupported as e:
            return 'unknown', 'export failed: %s' % e
        if name == 'cvc5':
            argv = [CVC5, '--strings-exp', '--produce-models',
                    '--tlimit=%d' % max(1, int(timeout_s * 1000))]
        elif name == 'z3new':
            import shutil as _sh
            exe = _sh.which('z3-new') or '/usr/local/bin/z3-new'
            argv = [exe, '-T:%d' % max(1, int(timeout_s + 0.999)), '-smt2']
        else:
            argv = [Z3CLI, '-T:%d' % max(1, int(timeout_s + 0.999)), '-smt2']
        if not _os.path.exists(argv[0]):
            return 'unknown', '%s not installed' % argv[0]
        return _run_cli(argv, script, timeout_s)
    raise ValueError('unknown backend %r' % name)


def _validate(w, pos, neg):
    """-> (True, None) or (False, reason).  Raises WitnessMismatch when the
    real ``re`` contradicts an exact translation."""
    if any(ord(ch) > MAX_SMT_CHAR for ch in w):
        return False, 'witness %r leaves the SMT alphabet' % w
    for rs, want in ((pos, True), (neg, False)):
        for r in rs:
            try:
                got = member(w, r)
            except RuntimeError as e:
                return False, 'cannot re-check witness %r: %s' % (w, e)
            if got != want:
                return False, ('solver witness %r fails ground re-evaluation '
                               'in z3' % w)
    for rs, want in ((pos, True), (neg, False)):
        for r in rs:
            info = provenance(r)
            if info is None:
                continue
            if _python_truth(info, w) != want:
                what = ('%s(%r, flags=%d)' % (info['kind'], info['pattern'],
                                              info['flags'])
                        if info['kind'] != 'lits' else 'literal set')
                if info['approx']:
                    return False, ('witness %r is an artefact of an '
                                   'approximate translation of %s: %s'
                                   % (w, what, '; '.join(info['approx'])))
                raise WitnessMismatch(
                    'witness %r: z3 says it is %sin the language of %s but '
                    "Python's re disagrees" % (w, '' if want else 'NOT ', what))
    return True, None


def _decide(pos, neg, timeout_s, backends):
    """-> (True, None) no such string / (False, witness) / (None, reason)"""
    global last_info
    reasons, log = [], []
    for b in backends or DEFAULT_BACKENDS:
        t0 = _time.time()
        status, payload = _backend(b, pos, neg, timeout_s)
        dt = _time.time() - t0
        log.append((b, status, round(dt, 4)))
        if status == 'unsat':
            last_info = {'backend': b, 'status': 'unsat', 'log': log}
            return True, None
        if status == 'sat':
            ok, why = _validate(payload, pos, neg)
            if ok:
                last_info = {'backend': b, 'status': 'sat', 'log': log}
                return False, payload
            reasons.append('%s: %s' % (b, why))
        else:
            reasons.append('%s: %s' % (b, payload))
    last_info = {'backend': None, 'status': 'unknown', 'log': log}
    return None, '; '.join(reasons)


def included(r1, r2, domain=None, timeout_s=20, backends=None):
    """Is L(r1) & L(domain) a subset of L(r2)?

    Returns ``(True, None)`` -- proved, the query ``s in r1, s in domain,
    s not in r2`` is unsat; ``(False, w)`` -- ``w`` is a concrete python str
    in L(r1) & L(domain) but not in L(r2), re-validated by ground evaluation in
    z3 and, for regexes built by match_lang / fullmatch_lang / lit_union,
    against Python's own ``re``; or ``(None, reason)`` -- undecided.

    Decision procedures tried in order (``backends``, default
    ``('z3api', 'cvc5', 'z3cli')``), each with its own ``timeout_s`` budget:
    the z3 Python API, then SMT-LIB text through ``/usr/bin/cvc5
    --strings-exp`` and ``/usr/bin/z3``; a CLI 'sat' is turned into a witness
    by parsing ``(get-value)``.  NB when r1/r2 are *approximate* translations
    (see ``approximations``) a True verdict is about the approximated
    languages."""
    pos = [r1] + ([domain] if domain is not None else [])
    return _decide(pos, [r2], timeout_s, backends)


def equivalent(r1, r2, domain=None, timeout_s=20, backends=None):
    """L(r1) & domain == L(r2) & domain ?  Returns ``(verdict, witness,
    direction)``: ``(True, None, None)``; ``(False, w, d)`` with ``d`` =
    ``'r1-not-in-r2'`` (w in r1 only) or ``'r2-not-in-r1'`` (w in r2 only);
    ``(None, reason, d)`` if direction ``d`` could not be decided (the other
    one was proved or not yet tried)."""
    v1, w1 = included(r1, r2, domain, timeout_s, backends)
    if v1 is False:
        return False, w1, 'r1-not-in-r2'
    v2, w2 = included(r2, r1, domain, timeout_s, backends)
    if v2 is False:
        return False, w2, 'r2-not-in-r1'
    if v1 is None:
        return None, w1, 'r1-not-in-r2'
    if v2 is None:
        return None, w2, 'r2-not-in-r1'
    return True, None, None


def is_empty(r, domain=None, timeout_s=20, backends=None):
    """L(r) & domain empty?  ``(True, None)`` / ``(False, member_witness)`` /
    ``(None, reason)``."""
    pos = [r] + ([domain] if domain is not None else [])
    return _decide(pos, [], timeout_s, backends)


# --------------------------------------------------------------------------
# helpers to obtain the patterns

_DUMP_CODE = r'''
import json, yaml
out = {}
for first, lst in yaml.resolver.Resolver.yaml_implicit_resolvers.items():
    key = "None" if first is None else first
    seen = out.setdefault(key, [])
    for tag, rx in lst:
        ent = [tag, rx.pattern, int(rx.flags)]
        if ent not in seen:
            seen.append(ent)
print(json.dumps(out))
'''


def dump_pyyaml_resolver_table(python='/venv/bin/python'):
    """PyYAML's ``yaml.resolver.Resolver.yaml_implicit_resolvers`` obtained
    from another interpreter (yaml need not be importable here):
    ``{first_char_or_None: [(tag, pattern, flags), ...]}`` (order preserved,
    duplicates within a key removed).  The JSON transport spells the key None
    as "None"; first characters are single characters or '' so there is no
    clash."""
    p = _subprocess.run([python, '-c', _DUMP_CODE], stdout=_subprocess.PIPE,
                        stderr=_subprocess.PIPE, text=True, timeout=120)
    if p.returncode != 0:
        raise RuntimeError('cannot dump the PyYAML resolver table: %s'
                           % p.stderr.strip()[-500:])
    raw = _json.loads(p.stdout)
    table = {}
    for key, lst in raw.items():
        table[None if key == 'None' else key] = [
            (tag, pat, int(fl)) for tag, pat, fl in lst]
    return table


def _const_str(node):
    if isinstance(node, _ast.Constant) and isinstance(node.value, str):
        return node.value
    if isinstance(node, _ast.BinOp) and isinstance(node.op, _ast.Add):
        return _const_str(node.left) + _const_str(node.right)
    raise ValueError('not a constant string expression')


def _const_flags(node):
    if isinstance(node, _ast.Constant) and isinstance(node.value, int) \
            and not isinstance(node.value, bool):
        return node.value
    if isinstance(node, _ast.Attribute) and isinstance(node.value, _ast.Name) \
            and node.value.id == 're':
        v = getattr(re, node.attr, None)
        if isinstance(v, re.RegexFlag):
            return int(v)
        raise ValueError('re.%s is not a flag' % node.attr)
    if isinstance(node, _ast.BinOp):
        a, b = _const_flags(node.left), _const_flags(node.right)
        if isinstance(node.op, _ast.BitOr):
            return a | b
        if isinstance(node.op, _ast.BitAnd):
            return a & b
        if isinstance(node.op, _ast.BitXor):
            return a ^ b
        if isinstance(node.op, _ast.Add) and not (a & b):
            return a + b
    raise ValueError('not a constant flag expression')


def extract_compile_calls(source_path):
    """``[(varname, pattern_string, flags_int), ...]`` for every assignment
    ``NAME = re.compile(<constant string expr>[, <constant flag expr>])`` in
    the python source file (anywhere: module, class or function level), in
    source order.  Nothing is imported or executed: adjacent/`+`-concatenated
    string literals and ``re.X | re.I``-style flag expressions are evaluated
    on the AST.  Calls whose arguments are not such constants are skipped."""
    with open(source_path, encoding='utf-8') as f:
        tree = _ast.parse(f.read(), filename=str(source_path))
    found = []
    for node in _ast.walk(tree):
        if isinstance(node, _ast.Assign) and len(node.targets) == 1:
            target, value = node.targets[0], node.value
        elif isinstance(node, _ast.AnnAssign) and node.value is not None:
            target, value = node.target, node.value
        else:
            continue
        if not isinstance(target, _ast.Name) or not isinstance(value, _ast.Call):
            continue
        fn = value.func
        if not (isinstance(fn, _ast.Attribute) and fn.attr == 'compile'
                and isinstance(fn.value, _ast.Name) and fn.value.id == 're'):
            continue
        if not value.args or len(value.args) > 2:
            continue
        try:
            pat = _const_str(value.args[0])
            flags = 0
            if len(value.args) == 2:
                flags = _const_flags(value.args[1])
            for kw in value.keywords:
                if kw.arg == 'flags' and len(value.args) == 1:
                    flags = _const_flags(kw.value)
                else:
                    raise ValueError('unexpected keyword')
        except ValueError:
            continue
        found.append((node.lineno, target.id, pat, int(flags)))
    found.sort()
    return [(n, p, f) for _ln, n, p, f in found]
