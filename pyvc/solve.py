"""Discharging obligations: SMT-LIB export + solver portfolio (DESIGN 2.1-4).

unsat from any back end = discharged; sat = refuted (model kept);
all unknown / timeout = undecided.  Every solver call has a wall-clock limit.
"""
import os
import re
import subprocess
import tempfile
import time
import multiprocessing as mp
import z3

CVC5 = '/usr/bin/cvc5'
Z3OLD = '/usr/bin/z3'


def to_smt2(assertions):
    s = z3.Solver()
    for a in assertions:
        s.add(a)
    return s.to_smt2()


def _run_cli(cmd, timeout):
    t0 = time.time()
    try:
        p = subprocess.run(cmd, stdout=subprocess.PIPE, stderr=subprocess.PIPE,
                           timeout=timeout, text=True)
        out = p.stdout.strip()
    except subprocess.TimeoutExpired:
        return 'timeout', '', time.time() - t0
    first = out.split('\n', 1)[0].strip() if out else ''
    if first in ('sat', 'unsat', 'unknown'):
        return first, out, time.time() - t0
    return 'error', (out + p.stderr)[:500], time.time() - t0


def solve_text(args):
    """worker: (key, smt2 text, input names, budget seconds, workdir)"""
    key, text, names, budget, workdir, order = args
    res = {'key': key, 'status': 'unknown', 'backend': None, 'time': 0.0,
           'model': None, 'tried': []}
    t_start = time.time()

    def api():
        t0 = time.time()
        try:
            s = z3.Solver()
            s.set('timeout', int(min(budget, 10) * 1000))
            s.from_string(text)
            r = str(s.check())
        except z3.Z3Exception as ex:
            r = 'error'
        dt = time.time() - t0
        res['tried'].append(('z3-5.1-api', r, round(dt, 3)))
        if r == 'sat':
            m = s.model()
            vals = {}
            for d in m.decls():
                if d.name() in names:
                    try:
                        vals[d.name()] = m[d].sexpr()
                    except Exception:
                        pass
            res['model'] = vals
        return r, dt

    def cli(which):
        path = os.path.join(workdir, 'ob_%s.smt2' % re.sub(r'\W', '_',
                                                          str(key))[:80])
        body = text
        if which == 'cvc5':
            body = '(set-logic ALL)\n' + text
            if names:
                body = body.replace('(check-sat)', '(check-sat)')
            path = path.replace('.smt2', '_c.smt2')
            with open(path, 'w') as f:
                f.write(body)
            cmd = [CVC5, '--dt-nested-rec', '--strings-exp', '-q',
                   '--tlimit=%d' % int(budget * 1000), path]
        else:
            with open(path, 'w') as f:
                f.write(body)
            cmd = [Z3OLD, '-T:%d' % int(budget), path]
        r, out, dt = _run_cli(cmd, budget + 2)
        res['tried'].append((which if which == 'cvc5' else 'z3-4.8.12', r,
                             round(dt, 3)))
        try:
            os.unlink(path)
        except OSError:
            pass
        return r, dt

    for backend in order:
        if backend == 'api':
            r, dt = api()
            name = 'z3-5.1-api'
        elif backend == 'cvc5':
            r, dt = cli('cvc5')
            name = 'cvc5-1.0.3'
        else:
            r, dt = cli('z3old')
            name = 'z3-4.8.12'
        if r in ('sat', 'unsat'):
            res['status'] = r
            res['backend'] = name
            break
    res['time'] = time.time() - t_start
    if res['status'] == 'sat' and res['model'] is None:
        # get a model from the API solver for replay if it can find one
        try:
            s = z3.Solver()
            s.set('timeout', int(budget * 1000))
            s.from_string(text)
            if str(s.check()) == 'sat':
                m = s.model()
                res['model'] = {d.name(): m[d].sexpr() for d in m.decls()
                                if d.name() in names}
        except Exception:
            pass
    return res


def has_seq_update(text):
    return 'seq.extract' in text


def discharge(verifier, obligations, budget=10, jobs=None, workdir=None,
              progress=None):
    """decide all obligations; fills status/backend/time/model"""
    eng = verifier.eng
    jobs = jobs or min(16, os.cpu_count() or 4)
    workdir = workdir or tempfile.mkdtemp(prefix='pyvc_')
    os.makedirs(workdir, exist_ok=True)
    tasks = []
    for k, ob in enumerate(obligations):
        if z3.is_true(ob.goal):
            ob.status, ob.backend = 'unsat', 'engine-trivial'
            continue
        fs = list(ob.pc) + [z3.Not(ob.goal)]
        exclude = ()
        if ob.fn and ob.fn.startswith('lemma:'):
            names = list(eng.specs.lemmas)
            if ob.fn[6:] in names:
                exclude = set(names[names.index(ob.fn[6:]):])
        axioms = verifier.axioms_for(fs, depth=eng.opts.get('unfold', 2),
                                     exclude=exclude)
        ob.axioms = axioms
        text = to_smt2(fs + axioms)
        names = set()
        for (kind, t) in ob.inputs.values():
            names.add(str(t))
        order = ['cvc5', 'z3old', 'api'] if has_seq_update(text) \
            else ['api', 'cvc5', 'z3old']
        tasks.append((k, text, names, budget, workdir, order))
    if tasks:
        with mp.Pool(jobs) as pool:
            for res in pool.imap_unordered(solve_text, tasks, chunksize=1):
                ob = obligations[res['key']]
                ob.status = res['status']
                ob.backend = res['backend']
                ob.time = res['time']
                ob.model = res['model']
                ob.note = (ob.note + ' ' if ob.note else '') + str(
                    res['tried'])
                if progress:
                    progress(ob)
    return obligations
