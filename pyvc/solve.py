"""Discharging obligations: SMT-LIB export + solver portfolio (DESIGN 2.1-4).

unsat from any back end = discharged; sat = refuted (model kept);
all unknown / timeout = undecided.  Every solver call has a wall-clock limit.
"""
import os
import re
import subprocess
import tempfile
import time
import multiprocessing as mp
import z3

CVC5 = '/usr/bin/cvc5'
Z3OLD = '/usr/bin/z3'


def to_smt2(assertions):
    s = z3.Solver()
    for a in assertions:
        s.add(a)
    return s.to_smt2()


def _run_cli(cmd, timeout):
    t0 = time.time()
    try:
        p = subprocess.run(cmd, stdout=subprocess.PIPE, stderr=subprocess.PIPE,
                           timeout=timeout, text=True)
        out = p.stdout.strip()
    except subprocess.TimeoutExpired:
        return 'timeout', '', time.time() - t0
    first = out.split('\n', 1)[0].strip() if out else ''
    if first in ('sat', 'unsat', 'unknown'):
        return first, out, time.time() - t0
    return 'error', (out + p.stderr)[:500], time.time() - t0


Z3NEW = '/usr/local/bin/z3-new'
if not os.path.exists(Z3NEW):
    import shutil as _sh
    Z3NEW = _sh.which('z3-new') or Z3NEW


def _model_query(text, names):
    """text ending in (check-sat) -> text asking for the input symbols"""
    # only symbols the query declares can be asked for (an input that the
    # obligation does not mention is arbitrary: the replay uses a default)
    names = [n for n in names if re.search(
        r'\(declare-(fun|const) \|?%s\|? ' % re.escape(n), text)]
    if not names:
        return text
    return text + '\n(get-value (%s))\n' % ' '.join(
        '|%s|' % n if not re.fullmatch(r'[A-Za-z_][A-Za-z0-9_.!]*', n) else n
        for n in sorted(names))


def _parse_values(out):
    """(get-value ...) output of z3 -> {symbol: sexpr text}"""
    i = out.find('(')
    if i < 0:
        return None
    body = out[i:]
    vals = {}
    depth = 0
    start = None
    items = []
    for k, ch in enumerate(body):
        if ch == '(':
            depth += 1
            if depth == 2:
                start = k
        elif ch == ')':
            if depth == 2 and start is not None:
                items.append(body[start + 1:k])
                start = None
            depth -= 1
            if depth == 0:
                break
    for it in items:
        it = it.strip()
        m = re.match(r'(\|[^|]*\||[^\s()]+)\s+(.*)$', it, re.S)
        if m:
            vals[m.group(1).strip('|')] = m.group(2).strip()
    return vals or None


def solve_text(args):
    """worker: decides one obligation with command-line solvers only, each in
    its own process under a wall-clock limit (a crashing solver is an 'error'
    of that back end, never a hang of the checker)"""
    key, text, names, budget, workdir, order, light = args
    res = {'key': key, 'status': 'unknown', 'backend': None, 'time': 0.0,
           'model': None, 'tried': []}
    t_start = time.time()
    base = os.path.join(workdir, 'ob_%s' % re.sub(r'\W', '_', str(key))[:80])

    def run(which, body, limit):
        path = '%s_%s.smt2' % (base, which)
        if which == 'cvc5':
            with open(path, 'w') as f:
                f.write('(set-logic ALL)\n' + body)
            cmd = [CVC5, '--dt-nested-rec', '--strings-exp', '-q',
                   '--tlimit=%d' % int(limit * 1000), path]
        else:
            with open(path, 'w') as f:
                f.write(body)
            exe = Z3NEW if which == 'z3new' else Z3OLD
            cmd = [exe, '-T:%d' % max(1, int(limit)), path]
        r, out, dt = _run_cli(cmd, limit + 3)
        try:
            os.unlink(path)
        except OSError:
            pass
        return r, out, dt

    label = {'z3new': 'z3-5.1.0', 'api': 'z3-5.1.0', 'z3old': 'z3-4.8.12',
             'cvc5': 'cvc5-1.0.3'}
    for si, ltxt in enumerate(light or ()):
        # early stages: the obligation with fewer instantiated definitions
        # (no unfolding / only the goal's spec applications unfolded); fewer
        # hypotheses, so an unsat here is a proof; anything else is
        # inconclusive and the next stage decides
        solvers = ['z3new']
        if not has_sets(ltxt) and 'lambda' not in ltxt:
            # sequence-update reasoning: cvc5 and z3 4.8 are the strong ones
            solvers = ['cvc5', 'z3old', 'z3new'] if has_seq_update(ltxt) \
                else ['z3new', 'cvc5']
        done = False
        for which in solvers:
            r, out, dt = run(which, ltxt, min(budget, 8))
            res['tried'].append(('%s/stage%d' % (label[which], si), r,
                                 round(dt, 3)))
            if r == 'unsat':
                res.update(status='unsat', backend=label[which],
                           time=time.time() - t_start)
                done = True
                break
        if done:
            return res
    for backend in order:
        which = 'z3new' if backend == 'api' else backend
        r, out, dt = run(which, text, budget)
        res['tried'].append((label[which], r, round(dt, 3)))
        if r in ('sat', 'unsat'):
            res['status'] = r
            res['backend'] = label[which]
            break
    if res['status'] == 'sat' and names:
        for which in ('z3new', 'z3old'):
            r, out, dt = run(which, _model_query(text, names), budget)
            if r == 'sat':
                vals = _parse_values(out.split('\n', 1)[1] if '\n' in out
                                     else '')
                if vals:
                    res['model'] = vals
                    break
    res['time'] = time.time() - t_start
    if res['status'] == 'unknown' and os.environ.get('VERIF_KEEP_SMT'):
        d = os.environ['VERIF_KEEP_SMT']
        os.makedirs(d, exist_ok=True)
        for si, ltxt in enumerate(list(light or ()) + [text]):
            with open(os.path.join(d, '%s_s%d.smt2' % (re.sub(
                    r'\W', '_', str(key))[:40], si)), 'w') as f:
                f.write(ltxt)
    return res


def has_sets(text):
    return '(Array Ty Bool)' in text


_SYM = {}


def symbols(f):
    """names of the uninterpreted symbols (constants and functions) of f"""
    k = f.get_id()
    if k in _SYM:
        return _SYM[k]
    out = set()
    seen = set()
    stack = [f]
    while stack:
        t = stack.pop()
        i = t.get_id()
        if i in seen:
            continue
        seen.add(i)
        if z3.is_quantifier(t):
            stack.append(t.body())
            continue
        if z3.is_app(t):
            if t.decl().kind() == z3.Z3_OP_UNINTERPRETED:
                out.add(t.decl().name())
            stack.extend(t.children())
    _SYM[k] = out
    return out


_MS = {}


def mentions_sets(f):
    k = f.get_id()
    if k in _MS:
        return _MS[k]
    r = False
    seen = set()
    stack = [f]
    while stack:
        t = stack.pop()
        i = t.get_id()
        if i in seen:
            continue
        seen.add(i)
        if z3.is_quantifier(t):
            r = True
            break
        if z3.is_app(t):
            if t.sort().kind() == z3.Z3_ARRAY_SORT:
                r = True
                break
            stack.extend(t.children())
    _MS[k] = r
    return r


def slice_pc(pc, goal, n):
    """the n path-condition conjuncts most related to the goal: greedy
    selection by shared symbols, rare symbols weighing more"""
    syms = [symbols(f) for f in pc]
    freq = {}
    for ss in syms:
        for x in ss:
            freq[x] = freq.get(x, 0) + 1
    cur = set(symbols(goal))
    chosen = []
    rest = list(range(len(pc)))
    while rest and len(chosen) < n:
        best, bs = None, 0.0
        for i in rest:
            sc = sum(1.0 / freq[x] for x in syms[i] if x in cur)
            if not syms[i]:
                sc = 0.01       # ground facts are cheap: keep them
            if sc > bs:
                best, bs = i, sc
        if best is None:
            break
        chosen.append(best)
        rest.remove(best)
        cur |= syms[best]
    chosen.sort()
    return [pc[i] for i in chosen]


def ob_unfold(eng, ob):
    """unfolding depth: contract clause unfold(k) of the function under
    verification, else the engine option, else 2"""
    c = eng.contracts.get(ob.fn) if ob.fn else None
    if c is not None and getattr(c, 'unfold', None) is not None:
        return c.unfold
    return eng.opts.get('unfold', 1)


def has_seq_update(text):
    return 'seq.extract' in text


def discharge(verifier, obligations, budget=10, jobs=None, workdir=None,
              progress=None):
    """decide all obligations; fills status/backend/time/model"""
    eng = verifier.eng
    jobs = jobs or min(16, os.cpu_count() or 4)
    workdir = workdir or tempfile.mkdtemp(prefix='pyvc_')
    os.makedirs(workdir, exist_ok=True)
    tasks = []
    for k, ob in enumerate(obligations):
        if z3.is_true(ob.goal):
            ob.status, ob.backend = 'unsat', 'engine-trivial'
            continue
        fs = list(ob.pc) + [z3.Not(ob.goal)]
        exclude = ()
        if ob.fn and ob.fn.startswith('lemma:'):
            names = list(eng.specs.lemmas)
            if ob.fn[6:] in names:
                exclude = set(names[names.index(ob.fn[6:]):])
        axioms = verifier.axioms_for(fs, depth=ob_unfold(eng, ob),
                                     exclude=exclude)
        ob.axioms = axioms
        text = to_smt2(fs + axioms)
        light = None
        if 6000 < len(text) <= 40000:
            # medium-sized: first without the plugin axioms over the terms
            # the unfoldings introduce (usually enough, much smaller)
            light = [to_smt2(fs + verifier.axioms_for(
                fs, depth=ob_unfold(eng, ob), exclude=exclude,
                plug_all=False))]
        if len(text) > 40000:
            # goal-directed slices of the path condition (fewer hypotheses:
            # an unsat of a slice is a proof of the obligation)
            light = []
            neg = z3.Not(ob.goal)
            d = ob_unfold(eng, ob)
            pc = list(ob.pc)
            sl = slice_pc(pc, ob.goal, 14) + [neg]
            af = lambda f, dd, pa: verifier.axioms_for(     # noqa
                f, depth=dd, exclude=exclude, plug_all=pa)
            g1 = af([neg], d, False)        # only the goal's applications
            if not mentions_sets(ob.goal):
                # hypotheses free of type sets: cvc5 / z3 4.8 territory
                nos = [f for f in pc if not mentions_sets(f)]
                s2 = slice_pc(nos, ob.goal, 16) + [neg]
                light.append(to_smt2(s2 + af(s2, 0, False)))
                light.append(to_smt2(nos + [neg] + af(nos + [neg], 0,
                                                      False) + g1))
            light.append(to_smt2(sl + af(sl, 0, False)))
            light.append(to_smt2(fs + af(fs, 0, False)))
            light.append(to_smt2(sl + af(sl, 0, False) + g1))
            light.append(to_smt2(fs + af(fs, 0, False) + g1))
            light.append(to_smt2(sl + af(sl, d, False)))
            light.append(to_smt2(fs + af(fs, d, False)))
            # the goal's own applications unfolded deeper (index-recursive
            # base cases over short literal sequences need 3 steps)
            light.append(to_smt2(fs + af(fs, 0, False) + af([neg], 3,
                                                            False)))
            light.append(to_smt2(fs + af(fs, 3, False)))
        names = set()
        for (kind, t) in ob.inputs.values():
            names.add(str(t))
        if has_sets(text):
            order = ['api', 'z3old']
        elif has_seq_update(text):
            order = ['cvc5', 'z3old', 'api']
        else:
            order = ['api', 'cvc5', 'z3old']
        tasks.append((k, text, names, budget, workdir, order, light))
    if tasks:
        from concurrent.futures import ThreadPoolExecutor
        with ThreadPoolExecutor(jobs) as pool:
            for res in pool.map(solve_text, tasks):
                ob = obligations[res['key']]
                ob.status = res['status']
                ob.backend = res['backend']
                ob.time = res['time']
                ob.model = res['model']
                ob.note = (ob.note + ' ' if ob.note else '') + str(
                    res['tried'])
                if progress:
                    progress(ob)
    return obligations
