"""Plugin for Dumper.emit_json (C07): yaml events, the JsonDumperState enum
read from the real class, the output stream as the sequence of written chunks,
and the token projection of that sequence (DESIGN 7.7).

Token projection.  A chunk passed to stream.write() is either JSON whitespace
only (contributes nothing) or one token; the token of a chunk is the chunk
with surrounding JSON whitespace removed (computed here for literal chunks,
and `': ' -> ':'` for the one symbolic chunk that can carry a blank, _kv_sep).
The contract speaks about the projection only, so whitespace placement is free
(printing `[]` instead of `[\\n  \\n]` for an empty list is not an alarm)."""
import ast
import z3
from . import sorts as so
from .terms import fresh, seq_append, seq_len
from .values import *      # noqa
from .state import Unsupported
from . import interp

EvKind, EKS = z3.EnumSort('EvKind', [
    'EK_ALIAS', 'EK_SEQ_END', 'EK_MAP_END', 'EK_DOC_END', 'EK_SEQ_START',
    'EK_MAP_START', 'EK_SCALAR', 'EK_OTHER'])
(EK_ALIAS, EK_SEQ_END, EK_MAP_END, EK_DOC_END, EK_SEQ_START, EK_MAP_START,
 EK_SCALAR, EK_OTHER) = EKS
_EV = z3.Datatype('Event')
_EV.declare('ev_E', ('ev_kind', EvKind), ('ev_tag', so.S), ('ev_value', so.S))
Event = _EV.create()
so.SORTS['Event'] = Event
so.SORTS['EvKind'] = EvKind

EVENT_CLASSES = {
    'yaml.events.AliasEvent': EK_ALIAS,
    'yaml.events.SequenceEndEvent': EK_SEQ_END,
    'yaml.events.MappingEndEvent': EK_MAP_END,
    'yaml.events.DocumentEndEvent': EK_DOC_END,
    'yaml.events.SequenceStartEvent': EK_SEQ_START,
    'yaml.events.MappingStartEvent': EK_MAP_START,
    'yaml.events.ScalarEvent': EK_SCALAR,
}

jsonstr = z3.Function('sp_jsonstr', so.S, so.B, so.S)   # json.dumps(s, ensure_ascii=b)
spaces = z3.Function('sp_spaces', so.I, so.S)           # ' ' * n
jproj = z3.Function('sp_jproj', so.StrSeq, so.StrSeq)   # projection of the old output

WS_RE = z3.Star(z3.Union(z3.Re(' '), z3.Re('\n'), z3.Re('\r'), z3.Re('\t')))
JSON_WS = ' \n\r\t'
# RFC 8259 number
_dig = z3.Range('0', '9')
_d19 = z3.Range('1', '9')
_int = z3.Union(z3.Re('0'), z3.Concat(_d19, z3.Star(_dig)))
JSON_NUMBER = z3.Concat(
    z3.Option(z3.Re('-')), _int,
    z3.Option(z3.Concat(z3.Re('.'), z3.Plus(_dig))),
    z3.Option(z3.Concat(z3.Union(z3.Re('e'), z3.Re('E')),
                        z3.Option(z3.Union(z3.Re('+'), z3.Re('-'))),
                        z3.Plus(_dig))))


class VEvent(V):
    __slots__ = ('t',)

    def __init__(self, t):
        self.t = t


interp.WRAPPERS[Event] = VEvent


class VKindE(V):
    __slots__ = ('t',)

    def __init__(self, t):
        self.t = t


interp.WRAPPERS[EvKind] = VKindE


class JsonPlugin:
    def __init__(self):
        self.enum_cache = {}

    # --- sorts
    def fresh_by_key(self, eng, key, prefix, st):
        if key == 'event':
            return VEvent(fresh(prefix, Event))
        if key == 'jstream':
            oid = st.new_obj({'chunks': VSeq(fresh(prefix + '_chunks',
                                                   so.StrSeq), 'str')})
            return VObj(oid, None)
        return None

    # --- enum classes of the repository: members are small ints (index of
    # the first member with the same value expression: enum aliasing)
    def is_enum_class(self, cls):
        for b in cls.bases:
            if ast.unparse(b) in ('enum.Enum', 'Enum'):
                return True
        return False

    def members(self, cls):
        key = (cls.module.rel, cls.name)
        if key not in self.enum_cache:
            ms = {}
            seen = []
            for s in cls.node.body:
                if isinstance(s, ast.Assign) and len(s.targets) == 1 and \
                        isinstance(s.targets[0], ast.Name):
                    val = ast.dump(s.value)
                    if val in seen:
                        idx = seen.index(val)
                    else:
                        seen.append(val)
                        idx = len(seen) - 1
                    ms[s.targets[0].id] = idx
            self.enum_cache[key] = ms
        return self.enum_cache[key]

    def class_attr(self, eng, v, name, st):
        if self.is_enum_class(v.cls):
            ms = self.members(v.cls)
            if name in ms:
                return [(st, VInt(ms[name]))]
        return None

    def spec_name(self, eng, name):
        if name.startswith('JS_'):
            m = eng.program.modules.get('yatiml/dumper.py')
            if m is not None and 'JsonDumperState' in m.classes:
                ms = self.members(m.classes['JsonDumperState'])
                if name[3:] in ms:
                    return VInt(ms[name[3:]])
                raise Unsupported('JsonDumperState has no member ' + name[3:])
        if name in ('jtokens', 'is_json_ws', 'is_json_number', 'jsonstr'):
            return VExt('specb.' + name)
        if name.startswith('EK_'):
            for k in EKS:
                if str(k) == name:
                    return VKindE(k)
        return None

    # --- events
    def isinstance_term(self, eng, v, c, st, node=None):
        if isinstance(v, VEvent) and isinstance(c, VExt):
            k = EVENT_CLASSES.get(c.name)
            if k is not None:
                return Event.ev_kind(v.t) == k
        return None

    def value_attr(self, eng, v, name, st):
        if isinstance(v, VEvent):
            if name == 'tag':
                return [(st, VStr(Event.ev_tag(v.t)))]
            if name == 'value':
                return [(st, VStr(Event.ev_value(v.t)))]
            if eng.mode == 'spec' and name == 'kind':
                return [(st, VKindE(Event.ev_kind(v.t)))]
        return None

    # --- the stream
    def obj_attr(self, eng, v, name, st):
        if v.cls is None and 'chunks' in st.heap[v.oid] and name == 'write':
            return [(st, VExtMethod(v, 'write'))]
        return None

    def call_method(self, eng, recv, name, args, kwargs, st, node):
        if isinstance(recv, VObj) and recv.cls is None and name == 'write' \
                and 'chunks' in st.heap[recv.oid]:
            x = args[0]
            if not isinstance(x, VStr):
                raise Unsupported('stream.write of a non-str', node)
            old = st.heap[recv.oid]['chunks']
            st.heap[recv.oid]['chunks'] = VSeq(seq_append(old.t, x.t), 'str')
            return [(st, NONE)]
        return None

    def call_ext(self, eng, name, args, kwargs, st, node):
        if name == 'json.dumps':
            if len(args) != 1 or set(kwargs) != {'ensure_ascii'} or \
                    not isinstance(args[0], VStr):
                raise Unsupported('json.dumps call shape', node)
            eng.assume_note('E-JSON: json.dumps(s, ensure_ascii=b) is a JSON '
                            'string literal denoting s, ASCII-only iff b')
            t = jsonstr(args[0].t, eng.truth(kwargs['ensure_ascii'], st))
            # a JSON string literal starts with a quote: never whitespace-only
            st.assume(z3.PrefixOf(z3.StringVal('"'), t))
            return [(st, VStr(t))]
        return None

    def str_repeat(self, eng, a, b, st):
        if z3.is_string_value(a.t) and a.t.as_string() == ' ':
            t = spaces(b.t)
            st.assume(z3.InRe(t, z3.Star(z3.Re(' '))))
            return VStr(t)
        return None

    # --- spec builtins
    def call_specb(self, eng, name, args, st, node):
        if name == 'jtokens':
            v = args[0]
            if isinstance(v, VObj):
                v = st.heap[v.oid]['chunks']
            return VSeq(project(v.t), 'str')
        if name == 'is_json_ws':
            return VBool(z3.InRe(args[0].t, WS_RE))
        if name == 'is_json_number':
            return VBool(z3.InRe(args[0].t, JSON_NUMBER))
        if name == 'jsonstr':
            return VStr(jsonstr(args[0].t, eng.truth(args[1], st)))
        return None


def flatten(t):
    """concatenation term -> list of ('unit', x) | ('seq', s)"""
    if z3.is_app(t):
        k = t.decl().kind()
        if k == z3.Z3_OP_SEQ_CONCAT:
            out = []
            for c in t.children():
                out.extend(flatten(c))
            return out
        if k == z3.Z3_OP_SEQ_UNIT:
            return [('unit', t.arg(0))]
        if k == z3.Z3_OP_SEQ_EMPTY:
            return []
    return [('seq', t)]


def chunk_tokens(x):
    """Seq[str] term: the token (0 or 1) of one written chunk"""
    if z3.is_string_value(x):
        s = x.as_string().strip(JSON_WS)
        if not s:
            return None
        return z3.Unit(z3.StringVal(s))
    tok = z3.If(x == z3.StringVal(': '), z3.StringVal(':'), x)
    return z3.If(z3.InRe(x, WS_RE), z3.Empty(so.StrSeq), z3.Unit(tok))


def project(t):
    parts = []
    for kind, x in flatten(t):
        if kind == 'seq':
            parts.append(jproj(x))
        else:
            p = chunk_tokens(x)
            if p is not None:
                parts.append(p)
    if not parts:
        return z3.Empty(so.StrSeq)
    if len(parts) == 1:
        return parts[0]
    return z3.Concat(*parts)
