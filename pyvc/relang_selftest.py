#!/usr/bin/env python3-vt
"""Self-test of relang.py.   Run:  timeout 900 python3-vt /verif/pyvc/relang_selftest.py

Exit status 0 iff every check passed.  relang is trusted only as far as this
file tests it:

 0. helpers: SMT string escaping round trips, extract_compile_calls,
    dump_pyyaml_resolver_table
 1. brute force  re.match / re.fullmatch  vs  member(s, match_lang / fullmatch_lang)
    for EVERY string up to length 4 over small per-pattern alphabets, for every
    PyYAML implicit-resolver pattern, the two yatiml patterns and hand-made
    tricky patterns; plus generated long positive examples and their mutations;
    plus a sensitivity check of the harness itself (it must see seeded bugs)
 1b. re.IGNORECASE / categories: whole-alphabet (U+0000..U+2FFFF) comparison
 1c. constructs that must raise Unsupported
 2. inclusion / equivalence sanity (incl. every back end forced separately)
 3. yatiml's float pattern vs the YAML 1.2 core-schema float language
    (informational)
"""

import itertools
import os
import random
import re
import sys
import time

sys.path.insert(0, os.path.dirname(os.path.abspath(__file__)))

import z3                                   # noqa: E402
import relang as R                          # noqa: E402
import re._parser as _parser                # noqa: E402
import re._constants as _c                  # noqa: E402

T_START = time.time()
FAILS = []
COUNTS = {'bruteforce_strings': 0, 'generated_strings': 0, 'patterns': 0,
          'codepoint_checks': 0, 'queries': 0}


def fail(msg):
    FAILS.append(msg)
    print('FAIL: ' + msg, flush=True)
    if len(FAILS) > 40:
        finish()


def check(cond, msg):
    if not cond:
        fail(msg)
    return cond


def finish():
    dt = time.time() - T_START
    print()
    print('=' * 72)
    print('relang selftest: %d patterns, %d brute-force strings, %d generated '
          'strings, %d code-point checks, %d solver queries, %.1fs'
          % (COUNTS['patterns'], COUNTS['bruteforce_strings'],
             COUNTS['generated_strings'], COUNTS['codepoint_checks'],
             COUNTS['queries'], dt))
    if FAILS:
        print('RESULT: FAILED (%d disagreement(s))' % len(FAILS))
        for f in FAILS[:40]:
            print('  - ' + f)
        sys.exit(1)
    print('RESULT: OK')
    sys.exit(0)


# ---------------------------------------------------------------------------
# the patterns

YATIML_FLOAT = (
    r'^(?:'
    r'[-+]?'
    r'(?:'
    r'  (?:[0-9]+[eE][-+]?[0-9]+'
    r'  |[0-9]+\.([eE][-+]?[0-9]+)?'
    r'  |[0-9]*\.[0-9]+([eE][-+]?[0-9]+)?'
    r'  )'
    r'|\.(?:inf|Inf|INF)'
    r'|\.(?:nan|NaN|NAN)'
    r'))')
YATIML_BOOL = r'^(?:true|True|TRUE|false|False|FALSE)'

HAND_MADE = [
    (r'^a$', 0), (r'^a\Z', 0), (r'^(?:a$|b)', 0), (r'a|', 0), (r'[^a]b', 0),
    (r'a{2,3}', 0), (r'(?:ab)*c', 0),
    (r'^(?:[-+]?(?:[0-9][0-9_]*)\.[0-9_]*(?:[eE][-+][0-9]+)?)$', re.X),
    # more
    (r'', 0), (r'$', 0), (r'\Z', 0), (r'^$', 0), (r'a$|b\Z|c', 0),
    (r'(a$|b)', 0), (r'((a|b$)|c\Z)', 0), (r'a(?:$|\Z)', 0), (r'a$$', 0),
    (r'a$\Z', 0), (r'\A^a', 0), (r'(^a|^b)c', 0), (r'(?:^a|b)$', 0),
    (r'a.b', 0), (r'a.b', re.S), (r'(?s:a.)b.', 0), (r'a.*$', 0),
    (r'.*a$', re.S), (r'[^\n]a', 0), (r'[a-c]+?x', 0), (r'a??b', 0),
    (r'a*?$', 0), (r'a{0}b', 0), (r'a{0,}b', 0), (r'a{2,}b', 0),
    (r'(?:a|b){1,2}c', 0), (r'a{3}', 0), (r'(?:a{1,2}){2}x', 0),
    (r'(?:a|)*b', 0), (r'(?:|a){2,3}\Z', 0), (r'(?:a?){2}b', 0),
    (r'(?:a*)*b', 0), (r'(?:a*?)*?b$', 0), (r'(a|ab)(c|bcd)$', 0),
    (r'(?:a|ab)*\Z', 0), (r'x*$', 0), (r'\n$', 0), (r'a\n?$', 0),
    (r'[\n]*\Z', 0), (r'(?i)ab$', 0), (r'ab|Cd', re.I), (r'[a-c]x', re.I),
    (r'[^a-c]x', re.I), (r'(?i:a)b', 0), (r'(?-i:a)b', re.I),
    (r'k[^k]', re.I), (r'[A-Z_]+$', re.I | re.A),
    (r'\d+x', 0), (r'[\d_]+$', 0), (r'\s*a', 0), (r'\w+\Z', 0),
    (r'\d+x', re.A), (r'\D\d', re.A), (r'[^\d]\S\W?$', re.A),
    (r'[^\sa]+\Z', re.A), (r'[\W\d]a', re.A),
    (r' a b # comment' '\n' r' | c ', re.X), (r'[ #]a\ b', re.X),
    (r'\.\*\\', 0), (r'[\]\-\\^]+$', 0), (r'"a"', 0), (r'\\u\{41\}', 0),
    (r'é[à-ü]$', 0), (r'[^é]a', 0), ('\U0001F600+$', 0),
]

# extra alphabets for the important patterns (in addition to the automatic ones)
EXTRA_ALPHABETS = {
    'float': ['.1e-\n_:', '.0E+5\nx', '-.infIN', '.nanNA\n', '+1:5.9\n'],
    'int': ['0b1_-\nx', '0x9aF_\n', '-07_8\nx', '+1:59\n0', '0o7x_\n1'],
    'bool': ['yesYES\n', 'noNOx\n', 'trueTRU', 'falsex\n', 'onOfF\nN'],
    'null': ['~nul\nx ', 'NulL\n~x', 'NUL~ \nx'],
    'timestamp': ['20-1\n x', '2:0.Z\n ', '1T t\t:0', '0+-:1\n5'],
    'merge': ['<\nx='], 'value': ['=\nx<'], 'yaml': ['!&*\nx\\'],
    'yaml12_float_regex': ['.1e-\n+x', '.0E+5\n_', '-.infIN', '.nanNA\n',
                           '+1.e9\nx'],
    'yaml12_bool_regex': ['trueTRU', 'falsex\n', 'FALSEe\n', 'TrueFal'],
}


def tree_chars(pattern, flags):
    """Characters the pattern mentions (literals, range end points and one
    point inside every range), in order of first occurrence."""
    out = []

    def add(o):
        ch = chr(o)
        if ch not in out:
            out.append(ch)

    def walk(items):
        for op, av in items:
            if op in (_c.LITERAL, _c.NOT_LITERAL):
                add(av)
            elif op is _c.IN:
                walk(av)
            elif op is _c.RANGE:
                add(av[0]); add(av[1])
                if av[1] - av[0] > 1:
                    add((av[0] + av[1]) // 2)
            elif op is _c.BRANCH:
                for b in av[1]:
                    walk(b)
            elif op is _c.SUBPATTERN:
                walk(av[3])
            elif op in (_c.MAX_REPEAT, _c.MIN_REPEAT):
                walk(av[2])
    walk(_parser.parse(pattern, flags))
    return out


def alphabets_for(name, pattern, flags):
    chars = [ch for ch in tree_chars(pattern, flags) if ch not in '\nx']
    if flags & re.I or '(?i' in pattern:
        for ch in list(chars):
            for v in (ch.upper(), ch.lower()):
                if len(v) == 1 and v not in chars and v not in '\nx':
                    chars.append(v)
    if re.search(r'\\[dDsSwW]', pattern):
        for ch in ('5', ' ', '_', '\x1c'):
            if ch not in chars:
                chars.append(ch)
    alphas = []
    if not chars:
        alphas.append(['\n', 'x'])
    for i in range(0, len(chars), 5):
        alphas.append(['\n', 'x'] + chars[i:i + 5])
    for extra in EXTRA_ALPHABETS.get(name, []):
        a = list(dict.fromkeys(extra))
        assert len(a) <= 7, (name, extra)
        alphas.append(a)
    return alphas


def gen_example(items, rng, depth=0):
    """A random string likely to be matched by the parsed pattern."""
    out = []
    for op, av in items:
        if op is _c.LITERAL:
            out.append(chr(av))
        elif op is _c.NOT_LITERAL:
            out.append('x' if av != ord('x') else 'y')
        elif op is _c.ANY:
            out.append(rng.choice('ax_ 1'))
        elif op is _c.IN:
            its = list(av)
            if its and its[0][0] is _c.NEGATE:
                out.append(rng.choice('xq#'))
                continue
            o, a = rng.choice(its)
            if o is _c.LITERAL:
                out.append(chr(a))
            elif o is _c.RANGE:
                out.append(chr(rng.randint(a[0], a[1])))
            else:
                out.append({'CATEGORY_DIGIT': '7', 'CATEGORY_SPACE': ' ',
                            'CATEGORY_WORD': 'w'}.get(str(a), '#'))
        elif op is _c.BRANCH:
            out.append(gen_example(rng.choice(av[1]), rng, depth + 1))
        elif op is _c.SUBPATTERN:
            out.append(gen_example(av[3], rng, depth + 1))
        elif op in (_c.MAX_REPEAT, _c.MIN_REPEAT):
            lo, hi, p = av
            hi = lo + 3 if hi == _c.MAXREPEAT else hi
            for _ in range(rng.randint(lo, min(hi, lo + 3))):
                out.append(gen_example(p, rng, depth + 1))
    return ''.join(out)


def mutations(s, rng, chars):
    yield s
    yield s + '\n'
    yield s + '\n\n'
    yield s + 'x'
    yield s + '\nx'
    yield '\n' + s
    if s:
        i = rng.randrange(len(s))
        yield s[:i] + s[i + 1:]
        yield s[:i] + rng.choice(chars) + s[i + 1:]
        yield s[:i] + rng.choice(chars) + s[i:]
        yield s[:i]
        yield s[:i] + s[i].swapcase() + s[i + 1:]


def compare(name, pattern, flags, rm, rf, strings, label, budget):
    """Compare python re with relang on the given strings; True iff equal."""
    c = re.compile(pattern, flags)
    ok = True
    n = 0
    for s in strings:
        n += 1
        pm = c.match(s) is not None
        pf = c.fullmatch(s) is not None
        zm = R.member(s, rm)
        zf = R.member(s, rf)
        if pm != zm:
            ok = False
            budget.append('%s %s pattern %r flags %d: match(%r): python %s, relang %s'
                          % (label, name, pattern, flags, s, pm, zm))
        if pf != zf:
            ok = False
            budget.append('%s %s pattern %r flags %d: fullmatch(%r): python %s, relang %s'
                          % (label, name, pattern, flags, s, pf, zf))
        if len(budget) > 5:
            break
    return ok, n


def all_strings(alpha, maxlen=4):
    for n in range(maxlen + 1):
        for tup in itertools.product(alpha, repeat=n):
            yield ''.join(tup)


def brute_force_pattern(name, pattern, flags, rng):
    t0 = time.time()
    try:
        rm = R.match_lang(pattern, flags)
        rf = R.fullmatch_lang(pattern, flags)
    except R.Unsupported as e:
        fail('pattern %s %r (flags %d) unexpectedly Unsupported: %s'
             % (name, pattern, flags, e))
        return
    COUNTS['patterns'] += 1
    problems = []
    nb = 0
    alphas = alphabets_for(name, pattern, flags)
    for alpha in alphas:
        assert len(alpha) <= 7
        ok, n = compare(name, pattern, flags, rm, rf, all_strings(alpha),
                        'brute-force', problems)
        nb += n
        if problems:
            break
    ng = 0
    if not problems:
        tree = list(_parser.parse(pattern, flags))
        chars = tree_chars(pattern, flags) + ['x', '\n', ' ', '0']
        gen = []
        for _ in range(150):
            gen.extend(mutations(gen_example(tree, rng), rng, chars))
        for _ in range(300):
            gen.append(''.join(rng.choice(chars)
                               for _ in range(rng.randint(5, 10))))
        ok, ng = compare(name, pattern, flags, rm, rf, gen, 'generated',
                         problems)
    COUNTS['bruteforce_strings'] += nb
    COUNTS['generated_strings'] += ng
    for p in problems:
        fail(p)
    short = pattern if len(pattern) < 48 else pattern[:45] + '...'
    print('  %-20s %-50r fl=%-3d alph=%d  %6d+%4d strings  %5.2fs  %s'
          % (name, short, flags, len(alphas), nb, ng, time.time() - t0,
             'ok' if not problems else 'MISMATCH'), flush=True)


# ---------------------------------------------------------------------------

def section0_helpers():
    print('== 0. helpers')
    samples = ['', 'a', '\n', '"', '""', '\\', '\\u{41}', '\\u0041', 'é\u20ac',
               '\U0002FFFF', 'a"b\\c\nd', '\x00\x7f', '\\x41', '\\\\']
    for s in samples:
        esc = R._smt_escape(s)
        check(R._smt_unescape(esc.replace('"', '""')) == s,
              'escape/unescape round trip of %r' % s)
        check(R._string_value(R._sv(s)) == s, 'z3 StringVal round trip of %r' % s)
        check(z3.simplify(z3.Length(R._sv(s))).as_long() == len(s),
              'length of StringVal %r' % s)
        check(R.member(s, R.lit_union([s, 'zz'])), 'member lit %r' % s)
        check(not R.member(s + 'q', R.lit_union([s, 'zz'])), 'non-member lit %r' % s)
    check(R._smt_unescape('a\\?\\u{a}""\\u00e9') == 'a\\?\n"\xe9', 'unescape sample')

    # extract_compile_calls on the real yatiml loader
    src = '/repo/yatiml/loader.py'
    if os.path.exists(src):
        calls = dict((n, (p, f)) for n, p, f in R.extract_compile_calls(src))
        check(calls.get('yaml12_float_regex') == (YATIML_FLOAT, int(re.X)),
              'extract_compile_calls: yaml12_float_regex differs from the '
              'hard-coded copy: %r' % (calls.get('yaml12_float_regex'),))
        check(calls.get('yaml12_bool_regex') == (YATIML_BOOL, int(re.X)),
              'extract_compile_calls: yaml12_bool_regex differs from the '
              'hard-coded copy: %r' % (calls.get('yaml12_bool_regex'),))
        print('  extract_compile_calls(%s): %s' % (src, sorted(calls)))
    else:
        print('  (%s not present, extract_compile_calls checked on a temp file only)' % src)
    import tempfile
    with tempfile.NamedTemporaryFile('w', suffix='.py', delete=False) as f:
        f.write("import re\nA = re.compile('a' 'b' + r'\\d', re.X | re.I)\n"
                "class K:\n    def m(self):\n        B: object = re.compile('x', flags=re.S)\n"
                "        C = re.compile(foo)\n        D = re.compile('y', 64 | re.A)\n"
                "E = re.compile('z')\n")
        tmp = f.name
    got = R.extract_compile_calls(tmp)
    os.unlink(tmp)
    check(got == [('A', 'ab\\d', int(re.X | re.I)), ('B', 'x', int(re.S)),
                  ('D', 'y', 64 | int(re.A)), ('E', 'z', 0)],
          'extract_compile_calls on temp file: %r' % (got,))


def section1_bruteforce():
    print('== 1. brute force: python re vs relang (all strings up to length 4 '
          'over <=7-char alphabets, + generated examples/mutations)')
    rng = random.Random(20260929)
    table = R.dump_pyyaml_resolver_table()
    check(isinstance(table, dict) and len(table) >= 20,
          'dump_pyyaml_resolver_table returned %r' % (table,))
    pats = []
    for first in table:
        check(first is None or isinstance(first, str), 'bad key %r' % (first,))
        for tag, pat, fl in table[first]:
            if (tag, pat, fl) not in pats:
                pats.append((tag, pat, fl))
    print('  PyYAML table: %d first-char keys (%s), %d distinct patterns'
          % (len(table), ''.join(sorted(k for k in table if k)) +
             (" + ''" if '' in table else '') + (' + None' if None in table else ''),
             len(pats)))
    check(len(pats) >= 8, 'expected >= 8 distinct PyYAML patterns')
    unsupported = []
    for tag, pat, fl in pats:
        try:
            R.match_lang(pat, fl)
        except R.Unsupported as e:
            unsupported.append((tag, str(e)))
    print('  PyYAML patterns raising Unsupported: %s' % (unsupported or 'none'))
    check(not unsupported, 'PyYAML patterns are Unsupported: %r' % unsupported)
    for tag, pat, fl in pats:
        brute_force_pattern(tag.split(':')[-1], pat, fl, rng)
    brute_force_pattern('yaml12_float_regex', YATIML_FLOAT, int(re.X), rng)
    brute_force_pattern('yaml12_bool_regex', YATIML_BOOL, int(re.X), rng)
    for pat, fl in HAND_MADE:
        brute_force_pattern('hand', pat, int(fl), rng)

    # general (non-tail) end anchors as look-aheads
    R.STRICT_ANCHORS = False
    try:
        for pat, fl in [(r'a$\n', 0), (r'(?:a$|b)c?', 0), (r'(?:a$|b)\n*', 0),
                        (r'(?:a\Z|a$|b)(?:\n|x)', 0), (r'a(?:$|b)\n?x?', 0)]:
            brute_force_pattern('lookahead-$', pat, fl, rng)
    finally:
        R.STRICT_ANCHORS = True

    # exact Unicode categories
    R.CATEGORY_MODE = 'exact'
    try:
        for pat, fl, alpha in [(r'\d+\D$', 0, '1\u0663x\n\u00b2'),
                               (r'[^\s]\s\S', 0, ' \xa0\x1cx\n\u2003'),
                               (r'\w+\W', 0, 'a\u00e9_\n-\u0663'),
                               (r'[^\w\n]+$', re.I, 'a\u00e9_\n-K')]:
            EXTRA_ALPHABETS['exact-cat'] = [alpha]
            brute_force_pattern('exact-cat', pat, fl, rng)
    finally:
        R.CATEGORY_MODE = 'approx'

    # sensitivity of the harness: seeded semantic bugs must be detected
    print('  harness sensitivity (seeded bugs must be seen):')
    for py_pat, z_pat, zkind, needle in [
            (r'^a$', r'^a\Z', 'match', 'a\n'),
            (r'^a\Z', r'^a$', 'match', 'a\n'),
            (r'^(?:true|True)', r'^(?:true|True)\Z', 'match', 'truex'),
            (r'a.b', r'a[\x00-\U0002fffd]b', 'match', 'a\nb'),
            (r'^(?:a$|b)', r'^(?:a|b)$', 'match', 'bx')]:
        c = re.compile(py_pat)
        rz = R.match_lang(z_pat)
        diffs = [s for s in all_strings(['\n', 'x', 'a', 'b', 't', 'r', 'u', 'e'][:7] + ['e'], 5)
                 if (c.match(s) is not None) != R.member(s, rz)] \
            if False else \
            [s for s in itertools.chain(all_strings(['\n', 'x', 'a', 'b'], 4), [needle])
             if (c.match(s) is not None) != R.member(s, rz)]
        check(needle in diffs, 'harness did not detect seeded bug %r vs %r'
              % (py_pat, z_pat))
        print('    re %-22r vs relang %-26r -> %d differences, e.g. %r'
              % (py_pat, z_pat, len(diffs), diffs[0] if diffs else None))


def py_single_char_set(pattern, flags):
    c = re.compile(pattern, flags)
    return [x for x in range(R.MAX_SMT_CHAR + 1) if c.fullmatch(chr(x))]


def ranges_of(codes):
    rs = []
    for x in codes:
        if rs and rs[-1][1] == x - 1:
            rs[-1][1] = x
        else:
            rs.append([x, x])
    return rs


def own_union(rs):
    """built WITHOUT relang's constructors"""
    def sv(o):
        return z3.StringVal('\\u{%x}' % o)
    parts = [z3.Re(sv(a)) if a == b else z3.Range(sv(a), sv(b)) for a, b in rs]
    if not parts:
        return z3.Empty(z3.ReSort(z3.StringSort()))
    return parts[0] if len(parts) == 1 else z3.Union(*parts)


def section1b_codepoints():
    print('== 1b. single-character languages over the whole alphabet '
          'U+0000..U+2FFFF (IGNORECASE, classes, categories)')
    cases = [(r'k', re.I), (r'K', re.I), (r's', re.I), (r'i', re.I), (r'I', re.I),
             (r'[a-z]', re.I), (r'[A-Z]', re.I), (r'[^a-z]', re.I | re.S),
             (r'[^k]', re.I), (r'[h-l]', re.I), (r'1', re.I), (r'[_@\[`{]', re.I),
             (r'k', re.I | re.A), (r'[^a-z]', re.I | re.A), (r'[\W_]', re.I | re.A),
             (r'.', 0), (r'.', re.S), (r'[^a]', 0), (r'\s', re.A), (r'\S', re.A),
             (r'[^\w]', re.A), (r'\xe9', 0), (r'[\x80-\u0100]', 0),
             (r'[^\x80-\U0002fffd]', 0)]
    exact_cases = [(r'\d', 0), (r'\D', 0), (r'\s', 0), (r'[^\s]', 0), (r'\w', 0),
                   (r'\W', re.I), (r'[\d\s]', re.I)]
    onechar = z3.AllChar(z3.ReSort(z3.StringSort()))
    for mode, lst in (('approx', cases), ('exact', exact_cases)):
        R.CATEGORY_MODE = mode
        try:
            for pat, fl in lst:
                t0 = time.time()
                codes = py_single_char_set(pat, fl)
                rs = ranges_of(codes)
                r = R.fullmatch_lang(pat, fl)
                v, w, d = R.equivalent(r, own_union(rs), domain=onechar, timeout_s=30)
                COUNTS['queries'] += 1
                check(v is True, 'single-char language of %r flags %d differs from '
                      'python (%s, witness %r, %s)' % (pat, fl, v, w, d))
                # ground spot checks: all range borders and their neighbours
                pts = set()
                for a, b in rs[:400]:
                    pts.update((a - 1, a, b, b + 1))
                pts.update((0, 10, 0x130, 0x131, 0x17f, 0x212a, 0xd800, 0xffff,
                            0x10000, R.MAX_SMT_CHAR))
                cs = set(codes)
                for x in sorted(p for p in pts if 0 <= p <= R.MAX_SMT_CHAR):
                    COUNTS['codepoint_checks'] += 1
                    if R.member(chr(x), r) != (x in cs):
                        fail('U+%04X vs %r flags %d: python %s, relang %s'
                             % (x, pat, fl, x in cs, not (x in cs)))
                        break
                print('  %-7s %-22r fl=%-3d |set|=%6d in %4d ranges  equivalent=%s  %.2fs'
                      % (mode, pat, fl, len(codes), len(rs), v, time.time() - t0),
                      flush=True)
        finally:
            R.CATEGORY_MODE = 'approx'


def section1c_unsupported():
    print('== 1c. constructs that must raise Unsupported')
    cases = [
        (r'^a$', re.M), (r'(?m)a', 0), (r'a(?=b)', 0), (r'a(?!b)', 0),
        (r'(?<=a)b', 0), (r'(?<!a)b', 0), (r'(a)\1', 0), (r'(?P<n>a)(?P=n)', 0),
        (r'(a)?(?(1)b|c)', 0), (r'a\b', 0), (r'\Ba', 0), (r'a$b', 0),
        (r'a\Zb', 0), (r'(?:a$)*', 0), (r'(?:a$)?', 0), (r'(a\Z)+', 0),
        (r'(?:a$|b)c', 0), (r'b^a', 0), (r'a*^b', 0), (r'(?:^a)*', 0),
        (r'(?:a|^b)', 0) if False else (r'a(?:^b|c)', 0),
        (r'\D', 0), (r'\S', 0), (r'\W', 0), (r'[^\d]', 0), (r'[^\sa]', 0),
        (r'[\D]', 0), (r'\xe9', re.I), (r'[a-\xff]', re.I), (r'\u212a', re.I),
        (r'(?>a)b', 0), (r'a++b', 0), (r'a*+', 0), (r'\U00030000', 0),
        (r'[a-\U0010ffff]', 0), (r'[^\U0002fffe]', 0), (r'(', 0), (r'a{2,1}', 0),
        (b'a', 0), (r'a', re.L) if False else (r'(?L)a', 0),
    ]
    for pat, fl in cases:
        for fn in (R.match_lang, R.fullmatch_lang):
            try:
                fn(pat, fl)
            except R.Unsupported:
                pass
            except Exception as e:      # noqa
                fail('%s(%r, %d) raised %s instead of Unsupported: %s'
                     % (fn.__name__, pat, fl, type(e).__name__, e))
            else:
                fail('%s(%r, %d) should raise Unsupported' % (fn.__name__, pat, fl))
    print('  %d patterns x {match_lang, fullmatch_lang} correctly refused' % len(cases))
    before = len(R.approximations)
    R.match_lang(r'\d+ selftest-approx-note')
    check(len(R.approximations) == before + 1 and 'selftest-approx-note' in R.approximations[-1],
          'approximations note for \\d missing')
    before = len(R.approximations)
    R.match_lang(r'\d+ selftest-approx-note', re.A)
    check(len(R.approximations) == before, 're.ASCII \\d must not be marked approximate')


def timed(label, fn, *a, **kw):
    t0 = time.time()
    res = fn(*a, **kw)
    dt = time.time() - t0
    COUNTS['queries'] += 1
    print('  [%7.3fs %-6s] %s -> %r' % (dt, R.last_info.get('backend'), label, res),
          flush=True)
    return res


def section2_inclusion():
    print('== 2. inclusion / equivalence sanity')
    tt = R.lit_union(['true', 'True'])
    v, w = timed("included(match '^(?:true|True)', {true,True})",
                 R.included, R.match_lang(r'^(?:true|True)'), tt)
    check(v is False and isinstance(w, str) and w not in ('true', 'True')
          and R.check_witness(r'^(?:true|True)', 0, w),
          'prefix-match inclusion must fail with a re-confirmed witness, got %r %r' % (v, w))
    v, w = timed("included({true,True}, match '^(?:true|True)')",
                 R.included, tt, R.match_lang(r'^(?:true|True)'))
    check(v is True, 'literals must be included in the prefix language')
    res = timed(r"equivalent(match '^(?:true|True)\Z', {true,True})",
                R.equivalent, R.match_lang(r'^(?:true|True)\Z'), tt)
    check(res == (True, None, None), r'\Z-anchored must be equivalent, got %r' % (res,))
    res = timed(r"equivalent(match '^(?:true|True)$', {true,True})",
                R.equivalent, R.match_lang(r'^(?:true|True)$'), tt)
    check(res[0] is False and res[1] in ('true\n', 'True\n') and res[2] == 'r1-not-in-r2',
          '$-anchored must be inequivalent with witness "true\\n", got %r' % (res,))
    res = timed(r"equivalent(fullmatch '^(?:true|True)$', {true,True})",
                R.equivalent, R.fullmatch_lang(r'^(?:true|True)$'), tt)
    check(res == (True, None, None), 'fullmatch with $ must be equivalent, got %r' % (res,))
    res = timed("equivalent({true,True}, {true,True,TRUE})",
                R.equivalent, tt, R.lit_union(['true', 'True', 'TRUE']))
    check(res == (False, 'TRUE', 'r2-not-in-r1'), 'direction r2-not-in-r1, got %r' % (res,))
    v, w = timed("is_empty(match 'a' & domain b.*)", R.is_empty, R.match_lang('a'),
                 domain=R.match_lang('b'))
    check(v is True, 'a.* & b.* is empty')
    v, w = timed("is_empty(match 'a$')", R.is_empty, R.match_lang('a$'))
    check(v is False and w in ('a', 'a\n'), 'a$ not empty, got %r %r' % (v, w))
    v, w = timed(r"is_empty(match '[^\x00-\U0002fffd]$' minus U+2FFFE,U+2FFFF)", R.is_empty,
                 z3.Intersect(R.fullmatch_lang(r'[^\x00-\U0002fffd]'),
                              z3.Complement(R.lit_union(['\U0002fffe', '\U0002ffff']))))
    check(v is True, 'SMT alphabet must end at U+2FFFF, got %r %r' % (v, w))
    # domain use: the bool prefix language restricted to lower-case words
    dom = R.fullmatch_lang(r'[a-z]{0,5}')
    v, w = timed("included(yatiml bool, {true,false}, domain=[a-z]{0,5})", R.included,
                 R.match_lang(YATIML_BOOL, re.X), R.lit_union(['true', 'false']), domain=dom)
    check(v is False and re.fullmatch('[a-z]{0,5}', w) and w not in ('true', 'false')
          and R.check_witness(YATIML_BOOL, re.X, w), 'domain query, got %r %r' % (v, w))
    dom = R.fullmatch_lang(r'[a-z]{0,4}')
    v, w = timed("included(yatiml bool, {true,false}, domain=[a-z]{0,4})", R.included,
                 R.match_lang(YATIML_BOOL, re.X), R.lit_union(['true']), domain=dom)
    check(v is True, 'domain-restricted inclusion should hold, got %r %r' % (v, w))

    print('  -- every back end forced separately (witness parsing of CLI models)')
    nasty = R.fullmatch_lang(r'a"\\\n\xe9\u20ac\U0001F600[b-d]')
    for be in R.DEFAULT_BACKENDS:
        v, w = timed('[%s] is_empty(nasty literal)' % be, R.is_empty, nasty, backends=(be,))
        check(v is False and w[:-1] == 'a"\\\n\xe9\u20ac\U0001F600' and w[-1] in 'bcd',
              '%s: witness with quote/backslash/newline/non-ASCII, got %r %r' % (be, v, w))
        v, w = timed('[%s] included(match ^(?:true|True), lits)' % be, R.included,
                     R.match_lang(r'^(?:true|True)'), tt, backends=(be,))
        check(v is False and R.check_witness(r'^(?:true|True)', 0, w) and w not in ('true', 'True'),
              '%s: sat direction, got %r %r' % (be, v, w))
        res = timed('[%s] equivalent(match ^(?:true|True)\\Z, lits)' % be, R.equivalent,
                    R.match_lang(r'^(?:true|True)\Z'), tt, backends=(be,))
        check(res == (True, None, None), '%s: unsat direction, got %r' % (be, res))
        res = timed('[%s] equivalent(match ^(?:true|True)$, lits)' % be, R.equivalent,
                    R.match_lang(r'^(?:true|True)$'), tt, backends=(be,))
        check(res[0] is False and res[1] in ('true\n', 'True\n'),
              '%s: $ witness, got %r' % (be, res))
        v, w = timed('[%s] included(a{2,}b+, a{2,5}b{1,3}.*)' % be, R.included,
                     R.match_lang(r'a{2,}b+'), R.match_lang(r'a{2,5}b{1,3}'), backends=(be,))
        check(v is False and re.match(r'a{6,}b', w), '%s: loop export, got %r %r' % (be, v, w))
    # witness validation must catch a wrong model: simulate through _validate
    ok, why = R._validate('truex', [tt], [])
    check(ok is False, '_validate must reject a non-member')
    try:
        bogus = z3.Re('truex')          # claim: this z3 term is the translation of 'true\Z'
        R._remember(bogus, {'kind': 'match', 'pattern': r'true\Z', 'flags': 0, 'approx': []})
        R._validate('truex', [bogus], [])
    except R.WitnessMismatch:
        print('  WitnessMismatch raised for a (simulated) wrong translation: ok')
    else:
        fail('WitnessMismatch not raised for a wrong translation')
    # approximate translation: artefact witnesses are reported as undecided
    v, w = timed(r"included(lit {'٣'}, match '\d') (approximate \d)", R.included,
                 z3.Re(z3.StringVal('\\u{663}')), R.match_lang(r'\d'))
    check(v is False, 'raw z3 regex has no provenance: witness stands, got %r %r' % (v, w))
    v, w = timed(r"included(match '[\u0663]', match '\d') (approximate \d)", R.included,
                 R.match_lang('[\u0663]'), R.match_lang(r'\d'))
    check(v is None and 'approximate' in w, 'artefact witness must give None, got %r %r' % (v, w))

    print('  -- fullmatch_lang(p) is included in match_lang(p), and match_lang(p) == '
          'fullmatch_lang(p).Sigma* when unanchored')
    table = R.dump_pyyaml_resolver_table()
    seen = []
    for first in table:
        for ent in table[first]:
            if ent not in seen:
                seen.append(ent)
    for tag, pat, fl in seen + [('yaml12_float_regex', YATIML_FLOAT, int(re.X)),
                                ('yaml12_bool_regex', YATIML_BOOL, int(re.X))]:
        rm, rf = R.match_lang(pat, fl), R.fullmatch_lang(pat, fl)
        v, w = timed('included(fullmatch %s, match %s)' % (tag.split(':')[-1],) * 2,
                     R.included, rf, rm)
        check(v is True, 'fullmatch not included in match for %s: %r %r' % (tag, v, w))
        v, w = timed('included(match %s, fullmatch %s)' % (tag.split(':')[-1],) * 2,
                     R.included, rm, rf)
        check(v is False, 'match must be strictly larger than fullmatch for %s: %r %r'
              % (tag, v, w))
        check(v is not False or (R.check_witness(pat, fl, w, 'match')
                                 and not R.check_witness(pat, fl, w, 'fullmatch')),
              'witness %r for %s not confirmed by re' % (w, tag))


def yaml12_spec_float():
    """YAML 1.2 float language, written directly as a z3 regex."""
    def L(s):
        return z3.Re(s)
    digit = z3.Range('0', '9')
    sign = z3.Option(z3.Union(L('-'), L('+')))
    exp = z3.Concat(z3.Union(L('e'), L('E')), sign, z3.Plus(digit))
    num = z3.Union(
        z3.Concat(z3.Plus(digit), exp),
        z3.Concat(z3.Plus(digit), L('.'), z3.Star(digit), z3.Option(exp)),
        z3.Concat(L('.'), z3.Plus(digit), z3.Option(exp)))
    return z3.Union(
        z3.Concat(sign, num),
        z3.Concat(sign, L('.'), z3.Union(L('inf'), L('Inf'), L('INF'))),
        z3.Concat(L('.'), z3.Union(L('nan'), L('NaN'), L('NAN'))))


def section3_float():
    print('== 3. yatiml yaml12_float_regex vs YAML 1.2 spec float language (informational)')
    spec = yaml12_spec_float()
    for s, want in [('1.5', True), ('.5e3', True), ('-1e3', True), ('+.inf', True),
                    ('.nan', True), ('-.nan', False), ('1', False), ('1.', True),
                    ('.', False), ('1e', False), ('1.5x', False), ('1.5\n', False)]:
        check(R.member(s, spec) == want, 'spec float language wrong on %r' % s)
    rm = R.match_lang(YATIML_FLOAT, re.X)
    rf = R.fullmatch_lang(YATIML_FLOAT, re.X)
    for label, r in (('match_lang(yatiml float)    [what the resolver uses]', rm),
                     ('fullmatch_lang(yatiml float) [if it were anchored]    ', rf)):
        v, w = timed('included(%s, spec)' % label, R.included, r, spec)
        if v is False:
            print('      witness accepted by yatiml but not by the spec: %r (re confirms: %s)'
                  % (w, R.check_witness(YATIML_FLOAT, re.X, w,
                                        'match' if r is rm else 'fullmatch')))
        v, w = timed('included(spec, %s)' % label, R.included, spec, r)
        if v is False:
            print('      witness in the spec language but rejected by yatiml: %r (re confirms: %s)'
                  % (w, not R.check_witness(YATIML_FLOAT, re.X, w,
                                            'match' if r is rm else 'fullmatch')))
    # the same restricted to strings that start like a number but have no junk suffix:
    res = timed('equivalent(fullmatch_lang(yatiml float), spec)', R.equivalent, rf, spec)
    print('      => %r' % (res,))


def main():
    print('relang selftest; python %s, z3 %s' % (sys.version.split()[0], z3.get_version_string()))
    section0_helpers()
    section1_bruteforce()
    section1b_codepoints()
    section1c_unsupported()
    section2_inclusion()
    section3_float()
    if R.approximations:
        print('approximations recorded during the run (%d):' % len(R.approximations))
        for a in R.approximations[:6]:
            print('   ' + a)
        if len(R.approximations) > 6:
            print('   ...')
    finish()


if __name__ == '__main__':
    main()
