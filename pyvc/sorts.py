"""SMT sorts of the pyvc semantic model (DESIGN.md section 3.1).

All symbols carry a prefix (yn_, yp_, ty_, pv_, er_, sp_) so that an SMT-LIB
export never clashes with a datatype accessor name (probe in section 11).
"""
import z3

S = z3.StringSort()
I = z3.IntSort()
B = z3.BoolSort()

Kind, (K_SCALAR, K_SEQ, K_MAP, K_OTHER) = z3.EnumSort(
    'Kind', ['K_SCALAR', 'K_SEQ', 'K_MAP', 'K_OTHER'])

# --- YAML nodes: one record constructor + a base constructor that is never
# a real node (needed for well-foundedness of the nested datatype).
_YN = z3.Datatype('YNode')
_YP = z3.Datatype('YPair')
_YNr = z3.DatatypeSort('YNode')
_YPr = z3.DatatypeSort('YPair')
_YN.declare('yn_N', ('yn_kind', Kind), ('yn_tag', S), ('yn_val', S),
            ('yn_items', z3.SeqSort(_YNr)), ('yn_pairs', z3.SeqSort(_YPr)),
            ('yn_smark', I), ('yn_emark', I))
_YN.declare('yn_Bad')
_YP.declare('yp_P', ('yp_k', _YNr), ('yp_v', _YNr))
YNode, YPair = z3.CreateDatatypes(_YN, _YP)
NodeSeq = z3.SeqSort(YNode)
PairSeq = z3.SeqSort(YPair)
StrSeq = z3.SeqSort(S)
IntSeq = z3.SeqSort(I)
BoolSeq = z3.SeqSort(B)

mkN = YNode.yn_N
mkP = YPair.yp_P
is_N = YNode.is_yn_N
n_kind, n_tag, n_val = YNode.yn_kind, YNode.yn_tag, YNode.yn_val
n_items, n_pairs = YNode.yn_items, YNode.yn_pairs
n_smark, n_emark = YNode.yn_smark, YNode.yn_emark
p_k, p_v = YPair.yp_k, YPair.yp_v

EMPTY_NODES = z3.Empty(NodeSeq)
EMPTY_PAIRS = z3.Empty(PairSeq)

# str(mark): uninterpreted, assumed injective where needed (C17)
markstr = z3.Function('sp_markstr', I, S)
GEN_MARK = z3.IntVal(-1)        # Mark('generated node', ...)

# --- floats: uninterpreted (DESIGN 2.3)
Fl = z3.DeclareSort('Fl')
fl_of_str = z3.Function('sp_float_of_str', S, Fl)
fl_of_int = z3.Function('sp_float_of_int', I, Fl)
str_of_fl = z3.Function('sp_str_of_float', Fl, S)
int_of_str = z3.Function('sp_int_of_str', S, I)     # Python int(s) on its domain
str_of_int = z3.Function('sp_str_of_int', I, S)     # str(i)
int_dom = z3.Function('sp_int_dom', S, B)           # int(s) does not raise
fl_dom = z3.Function('sp_float_dom', S, B)          # float(s) does not raise
lower = z3.Function('sp_lower', S, S)               # str.lower
repl_ud = z3.Function('sp_replace_under_dash', S, S)   # s.replace('_','-')
repl_du = z3.Function('sp_replace_dash_under', S, S)   # s.replace('-','_')

# --- type terms
_TY = z3.Datatype('Ty')
_TYr = z3.DatatypeSort('Ty')
for nm in ['ty_Str', 'ty_Int', 'ty_Float', 'ty_Bool', 'ty_BoolFix', 'ty_None',
           'ty_NoneType', 'ty_Date', 'ty_Path', 'ty_Any', 'ty_AnySent',
           'ty_PyList', 'ty_PyDict']:
    _TY.declare(nm)
_TY.declare('ty_List', ('ty_elem', _TYr))
_TY.declare('ty_Dict', ('ty_key', _TYr), ('ty_dval', _TYr))
_TY.declare('ty_Union', ('ty_members', z3.SeqSort(_TYr)))
_TY.declare('ty_Class', ('ty_cid', I))
_TY.declare('ty_Other', ('ty_oid', I))
Ty = _TY.create()
TySeq = z3.SeqSort(Ty)
TySet = z3.ArraySort(Ty, B)

# --- scalar python values (ScalarType = Union[str, int, float, bool, None])
_PV = z3.Datatype('PV')
_PV.declare('pv_Str', ('pv_s', S))
_PV.declare('pv_Int', ('pv_i', I))
_PV.declare('pv_Float', ('pv_f', Fl))
_PV.declare('pv_Bool', ('pv_b', B))
_PV.declare('pv_None')
_PV.declare('pv_Node', ('pv_n', YNode))      # Union[ScalarType, yaml.Node]
_PV.declare('pv_Other', ('pv_o', I))
PV = _PV.create()

# --- recognition errors  RecError = (msg, [RecError])
_ER = z3.Datatype('RErr')
_ERr = z3.DatatypeSort('RErr')
_ER.declare('er_E', ('er_msg', S), ('er_causes', z3.SeqSort(_ERr)))
_ER.declare('er_Bad')
RErr = _ER.create()
ErrSeq = z3.SeqSort(RErr)

SORTS = {
    'int': I, 'str': S, 'bool': B, 'YNode': YNode, 'YPair': YPair,
    'Seq[YNode]': NodeSeq, 'Seq[YPair]': PairSeq, 'Seq[str]': StrSeq,
    'Seq[int]': IntSeq, 'Seq[bool]': BoolSeq, 'Kind': Kind, 'Ty': Ty,
    'Seq[Ty]': TySeq, 'Set[Ty]': TySet, 'PV': PV, 'Fl': Fl, 'RErr': RErr,
    'Seq[RErr]': ErrSeq, 'Set[str]': z3.ArraySort(S, B),
}


def sort_name(sort):
    for k, v in SORTS.items():
        if v == sort:
            return k
    return str(sort)
