"""Sidecar contracts (DESIGN 4.1).  A contract file is ordinary Python that is
*parsed*, never imported by the prover:

    @contract("yatiml/helpers.py::Node.remove_attribute")
    def _(self, attribute):
        requires(wf_map(self.yaml_node))
        modifies(self.yaml_node)
        ensures(...)
        raises(SeasoningError, when=...)
        invariant(0, lambda _i: ...)          # loop ordinal 0
        returns_place(lambda: self.yaml_node.pairs[k].v)

Clause expressions are evaluated symbolically by the engine and natively by the
run-time monitor / replay (pyvc.native)."""
import ast
import os


class Contract:
    def __init__(self, target, node, fname):
        self.target = target
        self.file = fname
        self.line = node.lineno
        self.params = [a.arg for a in node.args.args]
        self.requires = []
        self.ensures = []
        self.raises = []        # (exc name, when-expr or None)
        self.modifies = []      # exprs
        self.rebinds = []       # exprs (object fields that may be re-bound)
        self.invariants = {}    # ordinal -> [lambda]
        self.loop_modifies = {}  # ordinal -> list of names
        self.returns_place = None
        self.decreases = None
        self.trusted = False    # assumed, body not verified
        self.bounded = False
        self.pure = False
        self.properties = []    # property ids this contract carries
        self.inline = False
        self.ghost = []
        self.clause_prop = {}   # ('ensures', k) -> [property ids]
        self.must_fail = []     # canary ensures (must be refuted)
        self.sorts = {}         # param name -> sort key (overrides annotations)
        self.results = None     # sort key of result
        self.locals = {}
        self.reads_only = False
        self.unfold = None
        self.traces = False
        self.raises_msg = {}     # exception name -> lambda over the message
        for s in node.body:
            if isinstance(s, ast.Expr) and isinstance(s.value, ast.Constant):
                continue
            if isinstance(s, ast.Pass):
                continue
            if not (isinstance(s, ast.Expr) and isinstance(s.value, ast.Call)
                    and isinstance(s.value.func, ast.Name)):
                raise SyntaxError('%s:%d: contract bodies contain only clause '
                                  'calls' % (fname, s.lineno))
            c = s.value
            k = c.func.id
            kw = {x.arg: x.value for x in c.keywords}
            props = []
            if 'prop' in kw:
                props = [e.value for e in (kw['prop'].elts if isinstance(
                    kw['prop'], (ast.Tuple, ast.List)) else [kw['prop']])]
            if k == 'requires':
                self.requires.append(c.args[0])
            elif k == 'ensures':
                self.ensures.append(c.args[0])
                self.clause_prop[('ensures', len(self.ensures) - 1)] = props
            elif k == 'must_fail':
                self.must_fail.append(c.args[0])
            elif k == 'raises':
                if len(c.args) != 1:
                    raise SyntaxError('%s:%d: raises(Exc, when=cond)' % (
                        fname, s.lineno))
                self.raises.append((c.args[0].id, kw.get('when')))
                self.clause_prop[('raises', c.args[0].id)] = props
            elif k == 'modifies':
                self.modifies.extend(c.args)
            elif k == 'rebinds':
                self.rebinds.extend(c.args)
            elif k == 'invariant':
                self.invariants.setdefault(c.args[0].value, []).append(
                    c.args[1])
            elif k == 'returns_place':
                self.returns_place = c.args[0]
            elif k == 'decreases':
                self.decreases = c.args[0]
            elif k == 'trusted':
                self.trusted = True
            elif k == 'bounded':
                self.bounded = True
            elif k == 'pure':
                self.pure = True
            elif k == 'inline':
                # callers execute the body itself (more precise than the
                # contract, which is still verified on its own)
                self.inline = True
            elif k == 'properties':
                self.properties = [a.value for a in c.args]
            elif k == 'sort':
                self.sorts[c.args[0].value] = c.args[1].value
            elif k == 'result_sort':
                self.results = c.args[0].value
            elif k == 'raises_msg':
                self.raises_msg[c.args[0].id] = c.args[1]
            elif k == 'traces':
                self.traces = True
            elif k == 'unfold':
                self.unfold = c.args[0].value
            elif k == 'ghost':
                self.ghost.append(c)
            else:
                raise SyntaxError('%s:%d: unknown clause %s' % (
                    fname, s.lineno, k))


class ContractSet:
    def __init__(self, cdir):
        self.by_target = {}
        self.files = {}
        self.fields = {}
        for fn in sorted(os.listdir(cdir)):
            if not fn.endswith('.py') or fn.startswith('_'):
                continue
            path = os.path.join(cdir, fn)
            with open(path) as f:
                src = f.read()
            tree = ast.parse(src, path)
            self.files[fn] = src
            for s in tree.body:
                if isinstance(s, ast.Expr) and isinstance(s.value, ast.Call) \
                        and getattr(s.value.func, 'id', '') == 'fields':
                    self.fields[s.value.args[0].value] = {
                        k.arg: k.value.value for k in s.value.keywords}
                if not isinstance(s, ast.FunctionDef):
                    continue
                for d in s.decorator_list:
                    if isinstance(d, ast.Call) and getattr(
                            d.func, 'id', '') == 'contract':
                        target = d.args[0].value
                        if target in self.by_target:
                            raise SyntaxError('duplicate contract ' + target)
                        self.by_target[target] = Contract(target, s, fn)

    def get(self, qual):
        return self.by_target.get(qual)
