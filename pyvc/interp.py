"""Symbolic executor over the real AST (DESIGN 2.1 step 3)."""
import ast
import z3
from . import sorts as so
from .terms import (conj, disj, neg, fresh, nfield, pfield, seq_nth, seq_len,
                    seq_update, seq_append, seq_remove_at, seq_lit, with_field,
                    mk_scalar, mk_seq, mk_map)
from .values import *      # noqa
from .state import State, Unsupported


class Raise:
    """eval() result marker: the expression raised"""
    def __init__(self, exc):
        self.exc = exc


NODE_FIELDS = ('kind', 'tag', 'val', 'items', 'pairs', 'smark', 'emark')
BUILTIN_TY = {
    'str': so.Ty.ty_Str, 'int': so.Ty.ty_Int, 'float': so.Ty.ty_Float,
    'bool': so.Ty.ty_Bool, 'list': so.Ty.ty_PyList, 'dict': so.Ty.ty_PyDict,
    'datetime.date': so.Ty.ty_Date, 'pathlib.Path': so.Ty.ty_Path,
    'typing.Any': so.Ty.ty_Any, 'NoneType': so.Ty.ty_NoneType,
}
EXC_NAMES = set(EXC_PARENTS)
SPEC_TY = {'T_STR': 'ty_Str', 'T_INT': 'ty_Int', 'T_FLOAT': 'ty_Float',
           'T_BOOL': 'ty_Bool', 'T_BOOLFIX': 'ty_BoolFix', 'T_NONE': 'ty_None',
           'T_NONETYPE': 'ty_NoneType', 'T_DATE': 'ty_Date',
           'T_PATH': 'ty_Path', 'T_ANY': 'ty_Any', 'T_ANYSENT': 'ty_AnySent',
           'T_PYLIST': 'ty_PyList', 'T_PYDICT': 'ty_PyDict'}


WRAPPERS = {}      # sort -> V class (plugins register theirs)


def wrap(term):
    """z3 term -> V by sort"""
    s = term.sort()
    for srt, cls in WRAPPERS.items():
        if s == srt:
            return cls(term)
    if s == so.I:
        return VInt(term)
    if s == so.B:
        return VBool(term)
    if s == so.S:
        return VStr(term)
    if s == so.YNode:
        return VNodeVal(term)
    if s == so.YPair:
        return VPairVal(term)
    if s == so.Ty:
        return VTy(term)
    if s == so.PV:
        return VPV(term)
    if s == so.Kind:
        return VKind(term)
    if s == so.RErr:
        return VErr(term)
    if s == so.Fl:
        return VFloat(term)
    if s == so.TySet:
        return VTySet(term)
    if z3.is_seq(term) or s.kind() == z3.Z3_SEQ_SORT:
        return VSeq(term, SORT_ELEM[str(s.basis())])
    if s.kind() == z3.Z3_ARRAY_SORT and s.domain() == so.S:
        return VSetStr(term)
    raise Unsupported('wrap sort %s' % s)


def fresh_of_sortkey(key, prefix):
    if key == 'node':
        return None
    sort = so.SORTS[key]
    return wrap(fresh(prefix, sort))


class Obligation:
    __slots__ = ('fn', 'group', 'cls', 'label', 'line', 'pc', 'goal', 'props',
                 'inputs', 'status', 'backend', 'time', 'model', 'axioms',
                 'note')

    def __init__(self, fn, group, cls, label, line, pc, goal, props=(),
                 inputs=None):
        self.fn = fn
        self.group = group
        self.cls = cls
        self.label = label
        self.line = line
        self.pc = list(pc)
        self.goal = goal
        self.props = list(props)
        self.inputs = inputs or {}
        self.status = None
        self.backend = None
        self.time = 0.0
        self.model = None
        self.axioms = []
        self.note = ''


class Frame:
    """per-activation data"""
    def __init__(self, fn, contract=None, closure=None):
        self.fn = fn
        self.contract = contract
        self.closure = closure or {}


class Engine:
    def __init__(self, program, contracts, speclib, models, opts=None):
        self.program = program
        self.contracts = contracts
        self.specs = speclib
        self.models = models
        self.opts = opts or {}
        self.obligations = []
        self.frames = []
        self.mode = 'exec'          # exec | spec
        self.spec_state = None
        self.old_state = None
        self.spec_apps = {}         # term id -> (SpecFun, args terms, term)
        self.inputs = {}
        self.call_depth = 0
        self.used_assumptions = set()
        self.unsupported = []
        self.module_cache = {}
        self.verifying = None
        self.inline_stack = []
        self.path_count = 0

    # ------------------------------------------------------------------ util
    @property
    def frame(self):
        return self.frames[-1]

    def oblige(self, st, goal, group, cls, label, line=0, props=()):
        if z3.is_and(goal) and cls in ('internal', 'post') and \
                goal.num_args() > 1:
            # one obligation per conjunct: smaller queries, sharper reports
            ob = None
            for k, g in enumerate(goal.children()):
                ob = self.oblige(st, g, group, cls, '%s [conjunct %d]' % (
                    label, k), line, props)
            return ob
        if z3.is_true(goal):
            # still count: discharged trivially by the engine
            pass
        ob = Obligation(self.verifying, group, cls, label, line, st.pc, goal,
                        props, dict(self.inputs))
        rets = [n for n in st.notes if isinstance(n, str)
                and n.startswith('return@')]
        if rets:
            ob.note = rets[-1]
        self.obligations.append(ob)
        return ob

    def assume_note(self, name):
        self.used_assumptions.add(name)

    # ------------------------------------------------------- kinds of values
    def truth(self, v, st):
        """V -> Bool term (Python truthiness)"""
        if isinstance(v, VBool):
            return v.t
        if isinstance(v, VNone):
            return z3.BoolVal(False)
        if isinstance(v, VInt):
            return v.t != 0
        if isinstance(v, VStr):
            return z3.Length(v.t) > 0
        if isinstance(v, VSeq):
            return seq_len(v.t) > 0
        if isinstance(v, (VListC, VTuple)):
            return z3.BoolVal(len(v.items) > 0)
        if isinstance(v, VDictC):
            return z3.BoolVal(len(v.entries) > 0)
        if isinstance(v, VRefSeq):
            return self.len_of(v, st).t > 0
        if isinstance(v, (VObj, VNodeRef, VNodeVal, VFunc, VClass, VExt)):
            return z3.BoolVal(True)
        if isinstance(v, VTy):
            return v.t != so.Ty.ty_None
        if isinstance(v, VPV):
            t = v.t
            return z3.If(so.PV.is_pv_Bool(t), so.PV.pv_b(t),
                         z3.If(so.PV.is_pv_None(t), False,
                               z3.If(so.PV.is_pv_Str(t),
                                     z3.Length(so.PV.pv_s(t)) > 0,
                                     z3.If(so.PV.is_pv_Int(t),
                                           so.PV.pv_i(t) != 0, True))))
        if isinstance(v, VNodeValue):
            n = self.node_term(v.node, st)
            return z3.If(nfield(n, 'kind') == so.K_SCALAR,
                         z3.Length(nfield(n, 'val')) > 0,
                         z3.If(nfield(n, 'kind') == so.K_SEQ,
                               seq_len(nfield(n, 'items')) > 0,
                               seq_len(nfield(n, 'pairs')) > 0))
        for p in self.models.plugins:
            if hasattr(p, 'truth'):
                r = p.truth(self, v, st)
                if r is not None:
                    return r
        raise Unsupported('truth of %r' % (v,))

    def node_term(self, v, st):
        if isinstance(v, VNodeRef):
            return st.deref(v)
        if isinstance(v, VNodeVal):
            return v.t
        if isinstance(v, VPV):
            if st.entails(so.PV.is_pv_Node(v.t)):
                return so.PV.pv_n(v.t)
            raise Unsupported('scalar-union value used as a node')
        if isinstance(v, VObj):
            raise Unsupported('object used as node')
        raise Unsupported('not a node: %r' % (v,))

    def as_ty(self, v):
        if isinstance(v, VTy):
            return v.t
        if isinstance(v, VNone):
            return so.Ty.ty_None
        if isinstance(v, VExt) and v.name in BUILTIN_TY:
            return BUILTIN_TY[v.name]
        if isinstance(v, VClass):
            if v.cls.name == 'bool_union_fix':
                return so.Ty.ty_BoolFix
        return None

    def as_pv(self, v, st):
        if isinstance(v, VPV):
            return v.t
        if isinstance(v, VStr):
            return so.PV.pv_Str(v.t)
        if isinstance(v, VBool):
            return so.PV.pv_Bool(v.t)
        if isinstance(v, VInt):
            return so.PV.pv_Int(v.t)
        if isinstance(v, VFloat):
            return so.PV.pv_Float(v.t)
        if isinstance(v, VNone):
            return so.PV.pv_None
        if isinstance(v, (VNodeRef, VNodeVal)):
            return so.PV.pv_Node(self.node_term(v, st))
        return None

    def v_eq(self, a, b, st):
        """Python == as a Bool term"""
        if isinstance(a, VNodeValue) or isinstance(b, VNodeValue):
            if isinstance(b, VNodeValue):
                a, b = b, a
            n = self.node_term(a.node, st)
            if isinstance(b, VStr):
                return z3.And(nfield(n, 'kind') == so.K_SCALAR,
                              nfield(n, 'val') == b.t)
            if isinstance(b, VNone):
                return z3.BoolVal(False)
            if isinstance(b, VNodeValue):
                m = self.node_term(b.node, st)
                return z3.And(nfield(n, 'kind') == nfield(m, 'kind'),
                              nfield(n, 'val') == nfield(m, 'val'),
                              nfield(n, 'items') == nfield(m, 'items'),
                              nfield(n, 'pairs') == nfield(m, 'pairs'))
            pv = self.as_pv(b, st)
            if pv is not None:
                # a node value compared with a python scalar: only a str can
                # be equal to the str held by a scalar node
                return z3.And(nfield(n, 'kind') == so.K_SCALAR,
                              so.PV.is_pv_Str(pv),
                              nfield(n, 'val') == so.PV.pv_s(pv))
            for p in self.models.plugins:
                if hasattr(p, 'nodeval_eq'):
                    r = p.nodeval_eq(self, n, b, st)
                    if r is not None:
                        return r
            raise Unsupported('node.value == %r' % (b,))
        for p in self.models.plugins:
            if hasattr(p, 'v_eq'):
                r = p.v_eq(self, a, b, st)
                if r is not None:
                    return r
        ta, tb = self.as_ty(a), self.as_ty(b)
        if (isinstance(a, VTy) or isinstance(b, VTy)) and ta is not None \
                and tb is not None:
            return ta == tb
        if isinstance(a, VNone) or isinstance(b, VNone):
            if isinstance(a, VNone) and isinstance(b, VNone):
                return z3.BoolVal(True)
            o = b if isinstance(a, VNone) else a
            if isinstance(o, VPV):
                return so.PV.is_pv_None(o.t)
            if isinstance(o, VTy):
                return o.t == so.Ty.ty_None
            return z3.BoolVal(False)
        if isinstance(a, VPV) or isinstance(b, VPV):
            pa, pb = self.as_pv(a, st), self.as_pv(b, st)
            if pa is None or pb is None:
                raise Unsupported('PV == %r' % (b,))
            if self.mode == 'spec':
                # in contracts == on scalar-union values is identity of the
                # value (same kind, same content); Python's == (1 == True,
                # 1.0 == 1) is the spec function pv_equal
                return pa == pb
            return self.pv_eq(pa, pb)
        for cls in (VInt, VStr, VMark, VKind, VFloat, VNodeVal, VPairVal,
                    VErr, VTySet, VSetStr):
            if isinstance(a, cls) and isinstance(b, cls):
                return a.t == b.t
        if isinstance(a, VBool) and isinstance(b, VBool):
            return a.t == b.t
        if isinstance(a, VBool) and isinstance(b, VInt):
            return z3.If(a.t, 1, 0) == b.t
        if isinstance(a, VInt) and isinstance(b, VBool):
            return a.t == z3.If(b.t, 1, 0)
        if isinstance(a, VSeq) and isinstance(b, VSeq) and a.elem == b.elem:
            return a.t == b.t
        if isinstance(a, (VNodeRef, VNodeVal)) and isinstance(
                b, (VNodeRef, VNodeVal)):
            if self.mode == 'spec':
                return self.node_term(a, st) == self.node_term(b, st)
            raise Unsupported('object identity/equality of nodes in code')
        if isinstance(a, (VTuple, VListC)) and isinstance(b, (VTuple, VListC)):
            if type(a) is not type(b) or len(a.items) != len(b.items):
                return z3.BoolVal(False)
            return conj([self.v_eq(x, y, st)
                         for x, y in zip(a.items, b.items)])
        if isinstance(a, (VSeq, VListC)) and isinstance(b, (VSeq, VListC)):
            sa, sb = self.to_seq(a, st), self.to_seq(b, st)
            if sa is not None and sb is not None and sa.elem == sb.elem:
                return sa.t == sb.t
            if isinstance(a, VListC) and not a.items:
                return seq_len(b.t) == 0
            if isinstance(b, VListC) and not b.items:
                return seq_len(a.t) == 0
        if isinstance(a, VExt) and isinstance(b, VExt):
            return z3.BoolVal(a.name == b.name)
        if isinstance(a, VClass) and isinstance(b, VClass):
            return z3.BoolVal(a.cls is b.cls)
        if type(a) is type(b) and hasattr(a, 't') and not isinstance(
                a, (VSeq, VNodeRef)) and a.t.sort() == b.t.sort():
            return a.t == b.t
        if type(a) is not type(b):
            simple = (VInt, VStr, VBool, VFloat, VNone, VSeq, VListC, VTuple,
                      VDictC)
            if isinstance(a, simple) and isinstance(b, simple):
                if {type(a), type(b)} <= {VInt, VBool, VFloat}:
                    raise Unsupported('numeric cross-type ==')
                return z3.BoolVal(False)
        raise Unsupported('== between %s and %s' % (
            type(a).__name__, type(b).__name__))

    def pv_eq(self, pa, pb):
        """Python == on scalar-union values: bool/int/float compare
        numerically; str only with str; None only with None."""
        PVs = so.PV
        num = lambda p: z3.If(PVs.is_pv_Bool(p),   # noqa
                              z3.If(PVs.pv_b(p), 1, 0), PVs.pv_i(p))
        isnum = lambda p: z3.Or(PVs.is_pv_Bool(p), PVs.is_pv_Int(p))  # noqa
        self.assume_note('E-FLOATEQ: float == int/bool comparison is '
                         'uninterpreted (sp_float_of_int)')
        flt = lambda p: z3.If(PVs.is_pv_Float(p), PVs.pv_f(p),    # noqa
                              so.fl_of_int(num(p)))
        return z3.Or(
            z3.And(PVs.is_pv_Str(pa), PVs.is_pv_Str(pb),
                   PVs.pv_s(pa) == PVs.pv_s(pb)),
            z3.And(PVs.is_pv_None(pa), PVs.is_pv_None(pb)),
            z3.And(isnum(pa), isnum(pb), num(pa) == num(pb)),
            z3.And(z3.Or(PVs.is_pv_Float(pa), PVs.is_pv_Float(pb)),
                   z3.Or(isnum(pa), PVs.is_pv_Float(pa)),
                   z3.Or(isnum(pb), PVs.is_pv_Float(pb)),
                   flt(pa) == flt(pb)),
            z3.And(PVs.is_pv_Node(pa), PVs.is_pv_Node(pb), pa == pb),
            z3.And(PVs.is_pv_Other(pa), PVs.is_pv_Other(pb), pa == pb))

    def to_seq(self, v, st):
        """VListC / VRefSeq / VSeq -> VSeq (values) or None"""
        if hasattr(v, 'vals'):
            return v.vals
        if isinstance(v, VSeq):
            return v
        if isinstance(v, VListC):
            if not v.items:
                return None
            elems = []
            kind = None
            for it in v.items:
                k, t = self.elem_term(it, st)
                if k is None or (kind is not None and k != kind):
                    return None
                kind = k
                elems.append(t)
            return VSeq(seq_lit(z3.SeqSort(ELEM_SORT[kind]), elems), kind)
        if isinstance(v, VRefSeq) and v.idx is None and v.part is None:
            n = st.deref(v.base)
            if v.sel == 'item':
                return VSeq(nfield(n, 'items'), 'node')
            return VSeq(nfield(n, 'pairs'), 'pair')
        return None

    def elem_term(self, v, st):
        """value stored in a container -> (elem kind, term)"""
        if isinstance(v, (VNodeRef, VNodeVal)):
            return 'node', self.node_term(v, st)
        if isinstance(v, VObj) and self.mode == 'exec':
            return None, None
        if isinstance(v, VTuple) and len(v.items) == 2 and all(
                isinstance(x, (VNodeRef, VNodeVal)) or (
                    isinstance(x, VPV) and st.entails(so.PV.is_pv_Node(x.t)))
                for x in v.items):
            return 'pair', so.mkP(self.node_term(v.items[0], st),
                                  self.node_term(v.items[1], st))
        if isinstance(v, VPairVal):
            return 'pair', v.t
        if isinstance(v, VStr):
            return 'str', v.t
        if isinstance(v, VInt):
            return 'int', v.t
        if isinstance(v, VBool):
            return 'bool', v.t
        if isinstance(v, VTy):
            return 'ty', v.t
        if isinstance(v, VErr):
            return 'err', v.t
        if isinstance(v, VPV):
            return 'pv', v.t
        t = self.as_ty(v)
        if t is not None:
            return 'ty', t
        for p in self.models.plugins:
            if hasattr(p, 'elem_term'):
                r = p.elem_term(self, v, st)
                if r is not None:
                    return r
        return None, None

    def len_of(self, v, st):
        if isinstance(v, VSeq):
            return VInt(seq_len(v.t))
        if isinstance(v, VStr):
            return VInt(z3.Length(v.t))
        if isinstance(v, (VListC, VTuple)):
            return VInt(len(v.items))
        if isinstance(v, VDictC):
            return VInt(len(v.entries))
        if isinstance(v, VRefSeq):
            if v.idx is not None:
                return VInt(seq_len(v.idx))
            n = st.deref(v.base)
            return VInt(seq_len(nfield(n, 'items' if v.sel == 'item'
                                       else 'pairs')))
        if isinstance(v, VWrapSeq):
            return self.len_of(v.refs, st)
        for p in self.models.plugins:
            if hasattr(p, 'len_of'):
                r = p.len_of(self, v, st)
                if r is not None:
                    return r
        raise Unsupported('len of %s' % type(v).__name__)

    # ---------------------------------------------------------- name lookup
    def lookup(self, name, st, node=None):
        if name in st.env:
            return st.env[name]
        fr = self.frame
        if name in fr.closure:
            return fr.closure[name]
        if self.mode == 'spec':
            v = self.spec_name(name)
            if v is not None:
                return v
        mod = fr.fn.module if fr.fn is not None else None
        if mod is not None:
            v = self.module_name(mod, name)
            if v is not None:
                return v
        v = self.builtin_name(name)
        if v is not None:
            return v
        raise Unsupported('unknown name %s' % name, node)

    def builtin_name(self, name):
        if name in ('True', 'False'):
            return VBool(name == 'True')
        if name == 'None':
            return NONE
        if name in EXC_NAMES:
            return VExt('exc.' + name)
        if name in ('len', 'any', 'all', 'list', 'set', 'dict', 'tuple',
                    'str', 'int', 'float', 'bool', 'type', 'isinstance',
                    'issubclass', 'hasattr', 'getattr', 'enumerate', 'map',
                    'next', 'iter', 'zip', 'super', 'print', 'sorted'):
            return VExt(name)
        return None

    def spec_name(self, name):
        sp = self.specs
        if name in sp.funs:
            return VExt('spec.' + name)
        if name in ('SCALAR', 'SEQ', 'MAP', 'OTHER'):
            return VKind(getattr(so, 'K_' + name))
        if name in ('forall', 'exists', 'implies', 'old', 'N', 'P', 'iff',
                    'markstr', 'contains', 'startswith', 'endswith', 'ite',
                    'GEN_MARK', 'empty_nodes', 'empty_pairs', 'empty_strs', 'in_strs', 'strs_remove', 'strs_add', 'strs_none', 'pv_equal',
                    'seq_update',
                    'is_node', 'TY', 'typeof', 'pv', 'int_dom', 'float_dom',
                    'int_of_str', 'float_of_str', 'str_of_int',
                    'str_of_float', 'lower', 'float_of_int', 'exc_msg',
                    'pv_is_str', 'pv_is_bool', 'pv_is_int', 'pv_is_float',
                    'pv_is_none', 'pv_is_node', 'pv_is_other', 'pv_str',
                    'pv_bool', 'pv_int', 'pv_float', 'pv_node', 'mk_pv_str',
                    'mk_pv_int', 'mk_pv_bool', 'mk_pv_float', 'mk_pv_none'):
            return VExt('specb.' + name)
        if name in SPEC_TY:
            return VTy(getattr(so.Ty, SPEC_TY[name]))
        if name in sp.consts:
            return self.eval_const_expr(sp.consts[name])
        for p in self.models.plugins:
            if hasattr(p, 'spec_name'):
                v = p.spec_name(self, name)
                if v is not None:
                    return v
        return None

    def eval_const_expr(self, e):
        st = State()
        saved = self.mode
        self.mode = 'spec'
        self.frames.append(Frame(None))
        try:
            (s, v), = self.eval(e, st)
        finally:
            self.frames.pop()
            self.mode = saved
        return v

    def module_name(self, mod, name):
        key = (mod.rel, name)
        if key in self.module_cache:
            return self.module_cache[key]
        v = None
        if name in mod.functions:
            v = VFunc(mod.functions[name])
        elif name in mod.classes:
            v = VClass(mod.classes[name])
        elif name in mod.assigns:
            v = self.models.module_const(self, mod, name, mod.assigns[name])
        elif name in mod.imports:
            dotted = mod.imports[name]
            v = self.resolve_dotted(dotted)
        if v is not None:
            self.module_cache[key] = v
        return v

    def resolve_dotted(self, dotted):
        parts = dotted.split('.')
        if parts[0] == 'yatiml' and len(parts) >= 3:
            m = self.program.module_by_dotted('.'.join(parts[:2]))
            if m is not None:
                v = self.module_name(m, parts[2])
                if v is None:
                    raise Unsupported('cannot resolve ' + dotted)
                return v
        return self.models.external(dotted)

    # ------------------------------------------------------------ evaluation
    def eval(self, e, st):
        m = getattr(self, 'e_' + type(e).__name__, None)
        if m is None:
            raise Unsupported('expression ' + type(e).__name__, e)
        return m(e, st)

    def eval1(self, e, st):
        """evaluate where a single non-raising result is required"""
        res = self.eval(e, st)
        if len(res) != 1 or isinstance(res[0][1], Raise):
            raise Unsupported('expression forks or raises in a pure context: '
                              + ast.unparse(e), e)
        return res[0][1]

    def evals(self, exprs, st):
        results = [(st, [])]
        for e in exprs:
            new = []
            for s, vs in results:
                if isinstance(vs, Raise):
                    new.append((s, vs))
                    continue
                for s2, v in self.eval(e, s):
                    if isinstance(v, Raise):
                        new.append((s2, v))
                    else:
                        new.append((s2, vs + [v]))
            results = new
        return results

    def e_Constant(self, e, st):
        c = e.value
        if isinstance(c, bool):
            return [(st, VBool(c))]
        if isinstance(c, int):
            return [(st, VInt(c))]
        if isinstance(c, str):
            return [(st, VStr(c))]
        if c is None:
            return [(st, NONE)]
        if c is Ellipsis:
            return [(st, VOpaque('...'))]
        raise Unsupported('constant %r' % (c,), e)

    def e_Name(self, e, st):
        return [(st, self.lookup(e.id, st, e))]

    def e_Tuple(self, e, st):
        return [(s, v if isinstance(v, Raise) else VTuple(v))
                for s, v in self.evals(e.elts, st)]

    def e_List(self, e, st):
        return [(s, v if isinstance(v, Raise) else self.mk_list(v, s))
                for s, v in self.evals(e.elts, st)]

    def mk_list(self, items, st):
        if self.mode == 'spec' and items:
            sq = self.to_seq(VListC(items), st)
            if sq is not None:
                return sq
        return VListC(items)

    def e_Set(self, e, st):
        out = []
        for s, vs in self.evals(e.elts, st):
            if isinstance(vs, Raise):
                out.append((s, vs))
                continue
            out.append((s, self.models.mk_set(self, vs, s)))
        return out

    def e_Dict(self, e, st):
        out = []
        for s, ks in self.evals(e.keys, st):
            if isinstance(ks, Raise):
                out.append((s, ks))
                continue
            for s2, vs in self.evals(e.values, s):
                if isinstance(vs, Raise):
                    out.append((s2, vs))
                else:
                    out.append((s2, VDictC(list(zip(ks, vs)))))
        return out

    def e_JoinedStr(self, e, st):
        raise Unsupported('f-string', e)

    def e_Lambda(self, e, st):
        return [(st, VFunc(('lambda', e), None, dict(st.env)))]

    def e_IfExp(self, e, st):
        out = []
        for s, c in self.eval(e.test, st):
            if isinstance(c, Raise):
                out.append((s, c))
                continue
            ct = self.truth(c, s)
            if self.mode == 'spec':
                a = self.eval1(e.body, s)
                b = self.eval1(e.orelse, s)
                out.append((s, self.ite(ct, a, b, s)))
                continue
            for s2, val in self.branch(s, ct):
                out.extend(self.eval(e.body if val else e.orelse, s2))
        return out

    def ite(self, c, a, b, st):
        if z3.is_true(c):
            return a
        if z3.is_false(c):
            return b
        if isinstance(a, VNone) and isinstance(b, VNone):
            return a
        if isinstance(a, (VNodeRef, VNodeVal)) and isinstance(
                b, (VNodeRef, VNodeVal)):
            return VNodeVal(z3.If(c, self.node_term(a, st),
                                  self.node_term(b, st)))
        if isinstance(a, VListC) or isinstance(b, VListC):
            sa, sb = self.to_seq(a, st), self.to_seq(b, st)
            if sa is None and sb is not None and not a.items:
                sa = VSeq(z3.Empty(sb.t.sort()), sb.elem)
            if sb is None and sa is not None and not b.items:
                sb = VSeq(z3.Empty(sa.t.sort()), sa.elem)
            if sa is not None and sb is not None:
                a, b = sa, sb
        if type(a) is type(b) and hasattr(a, 't'):
            if isinstance(a, VSeq):
                return VSeq(z3.If(c, a.t, b.t), a.elem)
            return type(a)(z3.If(c, a.t, b.t))
        pa, pb = self.as_pv(a, st), self.as_pv(b, st)
        if pa is not None and pb is not None:
            return VPV(z3.If(c, pa, pb))
        raise Unsupported('ite over %s / %s' % (type(a).__name__,
                                                type(b).__name__))

    def branch(self, st, cond):
        """fork on a Bool term; prunes infeasible sides"""
        if z3.is_true(cond):
            return [(st, True)]
        if z3.is_false(cond):
            return [(st, False)]
        out = []
        s1 = st.fork().assume(cond)
        if s1.feasible():
            out.append((s1, True))
        s2 = st.fork().assume(neg(cond))
        if s2.feasible():
            out.append((s2, False))
        return out

    def e_BoolOp(self, e, st):
        is_and = isinstance(e.op, ast.And)
        if self.mode == 'spec':
            vs = [self.eval1(x, st) for x in e.values]
            ts = [self.truth(v, st) for v in vs]
            return [(st, VBool(conj(ts) if is_and else disj(ts)))]
        # try the merged form first when every operand is a pure Bool
        merged = self.try_pure_bool(e, st)
        if merged is not None:
            return [(st, VBool(merged))]

        def go(i, s):
            out = []
            for s2, v in self.eval(e.values[i], s):
                if isinstance(v, Raise) or i == len(e.values) - 1:
                    out.append((s2, v))
                    continue
                t = self.truth(v, s2)
                for s3, val in self.branch(s2, t):
                    if val == is_and:
                        out.extend(go(i + 1, s3))
                    else:
                        out.append((s3, v))
            return out
        return go(0, st)

    def try_pure_bool(self, e, st):
        """conjunction/disjunction whose operands evaluate without forking or
        raising and whose later operands are safe to evaluate unconditionally
        (we only accept it when each operand yields a single result)"""
        ts = []
        guard = st
        for x in e.values:
            try:
                res = self.eval(x, guard)
            except Unsupported:
                return None
            if len(res) != 1 or isinstance(res[0][1], Raise) or \
                    res[0][0] is not guard:
                return None
            v = res[0][1]
            if not isinstance(v, VBool):
                return None
            ts.append(v.t)
            # later operands are evaluated under the guard of earlier ones
            guard = guard.fork().assume(
                v.t if isinstance(e.op, ast.And) else neg(v.t))
            res_guard = guard
        return conj(ts) if isinstance(e.op, ast.And) else disj(ts)

    def e_UnaryOp(self, e, st):
        out = []
        for s, v in self.eval(e.operand, st):
            if isinstance(v, Raise):
                out.append((s, v))
            elif isinstance(e.op, ast.Not):
                out.append((s, VBool(neg(self.truth(v, s)))))
            elif isinstance(e.op, ast.USub) and isinstance(v, VInt):
                out.append((s, VInt(-v.t)))
            else:
                raise Unsupported('unary op', e)
        return out

    def e_BinOp(self, e, st):
        out = []
        for s, vs in self.evals([e.left, e.right], st):
            if isinstance(vs, Raise):
                out.append((s, vs))
                continue
            out.append((s, self.binop(e.op, vs[0], vs[1], s, e)))
        return out

    def binop(self, op, a, b, st, node=None):
        if isinstance(a, VInt) and isinstance(b, VInt):
            if z3.is_int_value(a.t) and z3.is_int_value(b.t):
                x, y = a.t.as_long(), b.t.as_long()
                if isinstance(op, ast.Add):
                    return VInt(x + y)
                if isinstance(op, ast.Sub):
                    return VInt(x - y)
                if isinstance(op, ast.Mult):
                    return VInt(x * y)
            if isinstance(op, ast.Add):
                return VInt(a.t + b.t)
            if isinstance(op, ast.Sub):
                return VInt(a.t - b.t)
            if isinstance(op, ast.Mult):
                return VInt(a.t * b.t)
        if isinstance(op, ast.Add):
            if isinstance(a, VStr) and isinstance(b, VStr):
                return VStr(z3.Concat(a.t, b.t))
            sa, sb = self.to_seq(a, st), self.to_seq(b, st)
            if isinstance(a, VListC) and isinstance(b, VListC):
                return VListC(a.items + b.items)
            if sa is not None and sb is not None and sa.elem == sb.elem:
                return VSeq(z3.Concat(sa.t, sb.t), sa.elem)
            if sa is not None and isinstance(b, VListC) and not b.items:
                return sa
            if sb is not None and isinstance(a, VListC) and not a.items:
                return sb
        if isinstance(op, ast.Mult) and isinstance(a, VStr) and \
                isinstance(b, VInt):
            return self.models.str_repeat(self, a, b, st)
        if isinstance(op, ast.Mod) and isinstance(a, VStr):
            raise Unsupported('%-formatting', node)
        if isinstance(op, ast.BitOr):
            r = self.models.tyset_union(self, a, b, st)
            if r is not None:
                return r
        raise Unsupported('binop %s on %s,%s' % (
            type(op).__name__, type(a).__name__, type(b).__name__), node)

    def e_Compare(self, e, st):
        out = []
        for s, vs in self.evals([e.left] + e.comparators, st):
            if isinstance(vs, Raise):
                out.append((s, vs))
                continue
            ts = []
            for op, a, b in zip(e.ops, vs, vs[1:]):
                ts.append(self.compare(op, a, b, s, e))
            out.append((s, VBool(conj(ts))))
        return out

    def compare(self, op, a, b, st, node=None):
        for p in self.models.plugins:
            if hasattr(p, 'compare'):
                r = p.compare(self, op, a, b, st)
                if r is not None:
                    return r
        if isinstance(op, (ast.Eq, ast.Is)):
            return self.v_eq(a, b, st)
        if isinstance(op, (ast.NotEq, ast.IsNot)):
            return neg(self.v_eq(a, b, st))
        if isinstance(op, (ast.Lt, ast.LtE, ast.Gt, ast.GtE)):
            if isinstance(a, VInt) and isinstance(b, VInt):
                if z3.is_int_value(a.t) and z3.is_int_value(b.t):
                    x, y = a.t.as_long(), b.t.as_long()
                    return z3.BoolVal({ast.Lt: x < y, ast.LtE: x <= y,
                                       ast.Gt: x > y, ast.GtE: x >= y}[
                                           type(op)])
                return {ast.Lt: a.t < b.t, ast.LtE: a.t <= b.t,
                        ast.Gt: a.t > b.t, ast.GtE: a.t >= b.t}[type(op)]
        if isinstance(op, (ast.In, ast.NotIn)):
            t = self.contains(b, a, st, node)
            return t if isinstance(op, ast.In) else neg(t)
        raise Unsupported('compare %s on %s,%s' % (
            type(op).__name__, type(a).__name__, type(b).__name__), node)

    def contains(self, container, x, st, node=None):
        if isinstance(container, (VListC, VTuple)):
            return disj([self.v_eq(x, y, st) for y in container.items])
        if isinstance(container, VDictC):
            return disj([self.v_eq(x, k, st) for k, _ in container.entries])
        if isinstance(container, VStr) and isinstance(x, VStr):
            return z3.Contains(container.t, x.t)
        if isinstance(container, VSeq):
            k, t = self.elem_term(x, st)
            if k == container.elem:
                return z3.Contains(container.t, z3.Unit(t))
        if isinstance(container, VSetStr) and isinstance(x, VNodeValue):
            n = self.node_term(x.node, st)
            return z3.And(nfield(n, 'kind') == so.K_SCALAR,
                          z3.Select(container.t, nfield(n, 'val')))
        if isinstance(container, VSetStr) and isinstance(x, VStr):
            return z3.Select(container.t, x.t)
        if isinstance(container, VSetStr) and isinstance(x, VPV):
            return z3.And(so.PV.is_pv_Str(x.t),
                          z3.Select(container.t, so.PV.pv_s(x.t)))
        if isinstance(container, VTySet):
            t = self.as_ty(x)
            if t is not None:
                return z3.Select(container.t, t)
        r = self.models.contains(self, container, x, st)
        if r is not None:
            return r
        raise Unsupported('in on %s' % type(container).__name__, node)

    def e_Attribute(self, e, st):
        out = []
        for s, v in self.eval(e.value, st):
            if isinstance(v, Raise):
                out.append((s, v))
                continue
            out.extend(self.getattr(v, e.attr, s, e))
        return out

    def getattr(self, v, name, st, node=None):
        if isinstance(v, VObj):
            fields = st.heap[v.oid]
            if name in fields:
                return [(st, fields[name])]
            if v.cls is not None:
                m = self.find_method(v.cls, name)
                if m is not None:
                    return [(st, VFunc(m, v))]
                if name in v.cls.attrs:
                    return [(st, self.class_attr(v.cls, name))]
            r = self.models.obj_attr(self, v, name, st)
            if r is not None:
                return r
            raise Unsupported('attribute %s of object %s' % (
                name, v.cls.name if v.cls else '?'), node)
        if isinstance(v, (VNodeRef, VNodeVal)):
            n = self.node_term(v, st)
            if self.mode == 'spec' and name in NODE_FIELDS:
                return [(st, wrap(nfield(n, name)))]
            if name == 'tag':
                return [(st, VStr(nfield(n, 'tag')))]
            if name == 'value':
                return [(st, VNodeValue(v))]
            if name == 'start_mark':
                return [(st, VMark(nfield(n, 'smark')))]
            if name == 'end_mark':
                return [(st, VMark(nfield(n, 'emark')))]
            raise Unsupported('node attribute ' + name, node)
        if isinstance(v, VPairVal) and name in ('k', 'v'):
            return [(st, VNodeVal(pfield(v.t, name)))]
        if isinstance(v, VErr) and name in ('msg', 'causes'):
            return [(st, wrap(so.RErr.er_msg(v.t) if name == 'msg'
                              else so.RErr.er_causes(v.t)))]
        if isinstance(v, VExt):
            return [(st, self.models.external(v.name + '.' + name))]
        if isinstance(v, VClass):
            r = self.models.class_attr(self, v, name, st)
            if r is not None:
                return r
            m = self.find_method(v.cls, name)
            if m is not None:
                return [(st, VFunc(m, None))]
            if name in v.cls.attrs:
                return [(st, self.class_attr(v.cls, name))]
            raise Unsupported('class attribute %s.%s' % (v.cls.name, name),
                              node)
        if isinstance(v, VExc) and name == 'args':
            return [(st, VTuple(v.args))]
        r = self.models.value_attr(self, v, name, st)
        if r is not None:
            return r
        return [(st, VExtMethod(v, name))]

    def class_attr(self, cls, name):
        key = ('cls', cls.module.rel, cls.name, name)
        if key not in self.module_cache:
            self.module_cache[key] = self.models.module_const(
                self, cls.module, name, cls.attrs[name])
        return self.module_cache[key]

    def find_method(self, cls, name):
        if name in cls.methods:
            return cls.methods[name]
        for b in cls.bases:
            if isinstance(b, ast.Name):
                bc = self.module_name(cls.module, b.id)
                if isinstance(bc, VClass):
                    m = self.find_method(bc.cls, name)
                    if m is not None:
                        return m
        return None

    def e_Subscript(self, e, st):
        out = []
        if isinstance(e.slice, ast.Slice):
            return self.e_slice(e, st)
        for s, vs in self.evals([e.value, e.slice], st):
            if isinstance(vs, Raise):
                out.append((s, vs))
                continue
            out.extend(self.subscript(vs[0], vs[1], s, e))
        return out

    def e_slice(self, e, st):
        sl = e.slice
        if sl.step is not None:
            raise Unsupported('slice step', e)
        parts = [e.value] + [x for x in (sl.lower, sl.upper) if x is not None]
        out = []
        for s, vs in self.evals(parts, st):
            if isinstance(vs, Raise):
                out.append((s, vs))
                continue
            base = vs[0]
            rest = vs[1:]
            lo = rest.pop(0) if sl.lower is not None else VInt(0)
            hi = rest.pop(0) if sl.upper is not None else None
            if isinstance(base, (VListC, VTuple)) and z3.is_int_value(lo.t) \
                    and (hi is None or z3.is_int_value(hi.t)):
                lo_i = lo.t.as_long()
                hi_i = hi.t.as_long() if hi is not None else None
                out.append((s, type(base)(base.items[lo_i:hi_i])))
                continue
            if isinstance(base, VStr):
                ln = z3.Length(base.t)
                if self.mode != 'spec' and not (z3.is_int_value(lo.t) and
                                                lo.t.as_long() >= 0):
                    raise Unsupported('string slice with symbolic start', e)
                hi_t = ln if hi is None else hi.t
                out.append((s, VStr(z3.SubString(base.t, lo.t, hi_t - lo.t))))
                continue
            sq = self.to_seq(base, s)
            if sq is not None and (self.mode == 'spec' or (
                    hi is None and z3.is_int_value(lo.t)
                    and lo.t.as_long() >= 0)):
                hi_t = seq_len(sq.t) if hi is None else hi.t
                out.append((s, VSeq(z3.SubSeq(sq.t, lo.t, hi_t - lo.t),
                                    sq.elem)))
                continue
            raise Unsupported('slice of %s' % type(base).__name__, e)
        return out

    def subscript(self, base, idx, st, node=None):
        """base[idx] with the implicit IndexError / KeyError forks"""
        if isinstance(base, VNodeValue):
            res = []
            for s, seqv in self.resolve_node_value(base, st, node):
                if isinstance(seqv, Raise):
                    res.append((s, seqv))
                else:
                    res.extend(self.subscript(seqv, idx, s, node))
            return res
        if isinstance(base, (VListC, VTuple)) and isinstance(idx, VInt):
            if z3.is_int_value(idx.t):
                i = idx.t.as_long()
                if -len(base.items) <= i < len(base.items):
                    return [(st, base.items[i])]
                return [(st, Raise(VExc('IndexError', (), node.lineno)))]
            # symbolic index into a concrete list
            out = []
            for i, it in enumerate(base.items):
                s2 = st.fork().assume(idx.t == i)
                if s2.feasible():
                    out.append((s2, it))
            s3 = st.fork().assume(z3.Or(idx.t < 0, idx.t >= len(base.items)))
            if s3.feasible():
                raise Unsupported('possibly negative/out-of-range index into '
                                  'a literal list', node)
            return out
        if isinstance(base, VDictC):
            return self.dict_lookup(base, idx, st, node)
        if isinstance(idx, VInt) and isinstance(
                base, (VSeq, VRefSeq, VWrapSeq, VStr)):
            n = self.len_of(base, st).t
            if self.mode == 'spec':
                return [(st, self.nth(base, idx.t, st))]
            inb = z3.And(idx.t >= 0, idx.t < n)
            out = []
            for s, ok in self.branch(st, inb):
                if ok:
                    out.append((s, self.nth(base, idx.t, s)))
                else:
                    s_neg = s.fork().assume(idx.t < 0)
                    if s_neg.feasible() and not s.entails(idx.t >= n):
                        raise Unsupported('possibly negative index', node)
                    out.append((s, Raise(VExc('IndexError', (),
                                              getattr(node, 'lineno', 0)))))
            return out
        r = self.models.subscript(self, base, idx, st, node)
        if r is not None:
            return r
        raise Unsupported('subscript of %s by %s' % (
            type(base).__name__, type(idx).__name__), node)

    def nth(self, base, i, st):
        if isinstance(base, VSeq):
            return self.wrap_elem(seq_nth(base.t, i), base.elem)
        if isinstance(base, VStr):
            return VStr(z3.SubString(base.t, i, 1))
        if isinstance(base, VRefSeq):
            j = i if base.idx is None else seq_nth(base.idx, i)
            if base.sel == 'item':
                return base.base.child('item', j)
            if base.part is not None:
                return base.base.child(base.part, j)
            return VTuple((base.base.child('pk', j), base.base.child('pv', j)))
        if isinstance(base, VWrapSeq):
            ref = self.nth(base.refs, i, st)
            oid = st.new_obj({'yaml_node': ref})
            return VObj(oid, base.cls)
        raise Unsupported('nth of %s' % type(base).__name__)

    def wrap_elem(self, t, elem):
        return wrap(t)

    def dict_lookup(self, d, key, st, node=None):
        out = []
        rest = st
        for k, v in d.entries:
            c = self.v_eq(key, k, rest)
            if z3.is_false(c):
                continue
            if z3.is_true(c):
                out.append((rest, v))
                rest = None
                break
            s1 = rest.fork().assume(c)
            if s1.feasible():
                out.append((s1, v))
            rest = rest.fork().assume(neg(c))
            if not rest.feasible():
                rest = None
                break
        if rest is not None:
            out.append((rest, Raise(VExc('KeyError', (),
                                         getattr(node, 'lineno', 0)))))
        return out

    def resolve_node_value(self, nv, st, node=None, want=None):
        """node.value -> VStr | VRefSeq(item) | VRefSeq(pair), forking on the
        node kind when the path condition does not determine it"""
        n = self.node_term(nv.node, st)
        kind = nfield(n, 'kind')
        out = []
        for K, mk in ((so.K_SCALAR, 'scalar'), (so.K_SEQ, 'seq'),
                      (so.K_MAP, 'map'), (so.K_OTHER, 'other')):
            if z3.is_app(kind) and kind.num_args() == 0 and \
                    kind.decl().kind() == z3.Z3_OP_DT_CONSTRUCTOR:
                if not kind.eq(K):
                    continue
                s = st
            else:
                s = st.fork().assume(kind == K)
                if not s.feasible():
                    continue
            if mk == 'scalar':
                out.append((s, VStr(nfield(n, 'val'))))
            elif mk == 'other':
                out.append((s, Raise(VExc('AttributeError', (),
                                          getattr(node, 'lineno', 0)))))
            else:
                ref = nv.node
                if isinstance(ref, VNodeVal):
                    ref = s.new_root(ref.t, 'v')
                out.append((s, VRefSeq(ref, 'item' if mk == 'seq'
                                       else 'pair')))
        return out

    def e_ListComp(self, e, st):
        return self.models.comprehension(self, e, st, 'list')

    def e_SetComp(self, e, st):
        return self.models.comprehension(self, e, st, 'set')

    def e_GeneratorExp(self, e, st):
        return self.models.comprehension(self, e, st, 'list')

    def e_DictComp(self, e, st):
        raise Unsupported('dict comprehension', e)

    def e_Call(self, e, st):
        return self.models.call(self, e, st)

    def e_Yield(self, e, st):
        """generator functions are executed straight through (DESIGN 2.4):
        the yielded values are recorded; PyYAML's two-phase driver resumes
        the generator before construct_document returns (E-CONSTRUCT)"""
        if e.value is None:
            st.notes.append(('yield', NONE))
            return [(st, NONE)]
        out = []
        for s, v in self.eval(e.value, st):
            if not isinstance(v, Raise):
                s.notes.append(('yield', v))
                s.env['__yielded__'] = v
                out.append((s, NONE))
            else:
                out.append((s, v))
        return out

    def e_Starred(self, e, st):
        raise Unsupported('starred expression', e)
