"""Symbolic values of the executor.  Each Python-level value on a path has a
definite *kind* (one of these classes); its content is an SMT term."""
import z3
from . import sorts as so


class V:
    __slots__ = ()

    def __repr__(self):
        return '%s(%s)' % (type(self).__name__, ', '.join(
            '%s=%s' % (s, getattr(self, s)) for s in self.__slots__))


class VInt(V):
    __slots__ = ('t',)

    def __init__(self, t):
        self.t = z3.IntVal(t) if isinstance(t, int) else t


class VBool(V):
    __slots__ = ('t',)

    def __init__(self, t):
        self.t = z3.BoolVal(t) if isinstance(t, bool) else t


class VStr(V):
    __slots__ = ('t',)

    def __init__(self, t):
        self.t = z3.StringVal(t) if isinstance(t, str) else t


class VFloat(V):
    __slots__ = ('t',)

    def __init__(self, t):
        self.t = t


class VNone(V):
    __slots__ = ()


NONE = VNone()


class VMark(V):
    __slots__ = ('t',)

    def __init__(self, t):
        self.t = t


class VKind(V):
    __slots__ = ('t',)

    def __init__(self, t):
        self.t = t


class VTy(V):
    """a type object (Ty term)"""
    __slots__ = ('t',)

    def __init__(self, t):
        self.t = t


class VPV(V):
    """a value of the scalar union (PV term): ScalarType or a node"""
    __slots__ = ('t',)

    def __init__(self, t):
        self.t = t


class VErr(V):
    __slots__ = ('t',)

    def __init__(self, t):
        self.t = t


class VNodeRef(V):
    """reference to a yaml.Node object: a place (root, path)"""
    __slots__ = ('root', 'path')

    def __init__(self, root, path=()):
        self.root = root
        self.path = tuple(path)

    def child(self, step, idx):
        return VNodeRef(self.root, self.path + ((step, idx),))


class VNodeVal(V):
    """a YNode value (spec level)"""
    __slots__ = ('t',)

    def __init__(self, t):
        self.t = t


class VPairVal(V):
    __slots__ = ('t',)

    def __init__(self, t):
        self.t = t


class VNodeValue(V):
    """node.value, kind not yet determined (DESIGN appendix D)"""
    __slots__ = ('node',)       # VNodeRef or VNodeVal

    def __init__(self, node):
        self.node = node


class VSeq(V):
    """symbolic sequence; elem in node pair str int bool ty err pv"""
    __slots__ = ('t', 'elem')

    def __init__(self, t, elem):
        self.t = t
        self.elem = elem


ELEM_SORT = {'node': so.YNode, 'pair': so.YPair, 'str': so.S, 'int': so.I,
             'bool': so.B, 'ty': so.Ty, 'err': so.RErr, 'pv': so.PV}
SORT_ELEM = {'YNode': 'node', 'YPair': 'pair', 'String': 'str', 'Int': 'int',
             'Bool': 'bool', 'Ty': 'ty', 'RErr': 'err', 'PV': 'pv'}


class VRefSeq(V):
    """the list object held in <base>.value seen as a list of node places
    (sel = 'item') or of (key, value) place pairs (sel = 'pair'); idx is None
    (identity) or an IntSeq term selecting indices (filter provenance)."""
    __slots__ = ('base', 'sel', 'idx', 'part')

    def __init__(self, base, sel, idx=None, part=None):
        self.base = base        # VNodeRef
        self.sel = sel          # 'item' | 'pair'
        self.idx = idx
        self.part = part        # None | 'pk' | 'pv'  (for filtered pair parts)


class VWrapSeq(V):
    """list(map(Node, X.value)): list of wrapper objects over a VRefSeq"""
    __slots__ = ('cls', 'refs')

    def __init__(self, cls, refs):
        self.cls = cls
        self.refs = refs


class VEnumerate(V):
    __slots__ = ('inner',)

    def __init__(self, inner):
        self.inner = inner


class VListC(V):
    """list with a concrete number of elements"""
    __slots__ = ('items',)

    def __init__(self, items):
        self.items = list(items)


class VTuple(V):
    __slots__ = ('items',)

    def __init__(self, items):
        self.items = tuple(items)


class VDictC(V):
    """dict with concretely many entries; keys are V (compared by v_eq)"""
    __slots__ = ('entries',)

    def __init__(self, entries):
        self.entries = list(entries)


class VSetStr(V):
    """set of strings as Array String Bool"""
    __slots__ = ('t',)

    def __init__(self, t):
        self.t = t


class VTySet(V):
    __slots__ = ('t', 'card')

    def __init__(self, t, card=None):
        self.t = t
        self.card = card


class VObj(V):
    __slots__ = ('oid', 'cls')

    def __init__(self, oid, cls):
        self.oid = oid
        self.cls = cls


class VFunc(V):
    __slots__ = ('fn', 'self', 'closure')

    def __init__(self, fn, self_=None, closure=None):
        self.fn = fn
        self.self = self_
        self.closure = closure


class VClass(V):
    __slots__ = ('cls',)

    def __init__(self, cls):
        self.cls = cls


class VExt(V):
    """an external object known by dotted name (yaml.ScalarNode, len, ...)"""
    __slots__ = ('name',)

    def __init__(self, name):
        self.name = name


class VExtMethod(V):
    __slots__ = ('recv', 'name')

    def __init__(self, recv, name):
        self.recv = recv
        self.name = name


class VExc(V):
    __slots__ = ('cls', 'args', 'line')

    def __init__(self, cls, args=(), line=0):
        self.cls = cls          # exception class name
        self.args = tuple(args)
        self.line = line


class VOpaque(V):
    """a value the model does not interpret (logger, formatted message...)"""
    __slots__ = ('what',)

    def __init__(self, what=''):
        self.what = what


EXC_PARENTS = {
    'RecognitionError': 'RuntimeError', 'SeasoningError': 'RuntimeError',
    'RuntimeError': 'Exception', 'NotImplementedError': 'RuntimeError',
    'RecursionError': 'RuntimeError',
    'KeyError': 'LookupError', 'IndexError': 'LookupError',
    'LookupError': 'Exception', 'ValueError': 'Exception',
    'TypeError': 'Exception', 'AttributeError': 'Exception',
    'StopIteration': 'Exception', 'KindConfusion': 'Exception',
    'YAMLError': 'Exception', 'UserException': 'Exception',
    'RepresenterError': 'YAMLError',
    'Exception': 'BaseException', 'BaseException': None,
}


def exc_is(cls, parent):
    while cls is not None:
        if cls == parent:
            return True
        cls = EXC_PARENTS.get(cls, 'Exception' if cls != 'BaseException'
                              else None)
    return False
