"""Native run-time of the spec language: the same spec source that the prover
parses is imported and executed on abstract values (DESIGN 4.1, 5.2b, 6)."""
from collections import namedtuple

SCALAR, SEQ, MAP, OTHER = 'SCALAR', 'SEQ', 'MAP', 'OTHER'
N = namedtuple('N', 'kind tag val items pairs smark emark')
P = namedtuple('P', 'k v')
GEN_MARK = -1


def spec(f=None, **kw):
    if f is None:
        return lambda g: g
    return f


def lemma(**kw):
    return lambda g: g


def implies(a, b):
    return (not a) or b


def iff(a, b):
    return bool(a) == bool(b)


def ite(c, a, b):
    return a if c else b


def forall(lo, hi, f):
    return all(f(j) for j in range(lo, hi))


def exists(lo, hi, f):
    return any(f(j) for j in range(lo, hi))


def contains(s, t):
    return t in s


def startswith(s, t):
    return s.startswith(t)


def endswith(s, t):
    return s.endswith(t)


def empty_nodes():
    return []


def empty_pairs():
    return []


def seq_update(xs, i, x):
    ys = list(xs)
    ys[i] = x
    return ys


def is_node(n):
    return isinstance(n, N)
