"""Native run-time of the spec language: the same spec source that the prover
parses is imported and executed on abstract values (DESIGN 4.1, 5.2b, 6)."""
from collections import namedtuple

SCALAR, SEQ, MAP, OTHER = 'SCALAR', 'SEQ', 'MAP', 'OTHER'
N = namedtuple('N', 'kind tag val items pairs smark emark')
P = namedtuple('P', 'k v')
GEN_MARK = -1


def spec(f=None, **kw):
    if f is None:
        return lambda g: g
    return f


def lemma(**kw):
    return lambda g: g


def implies(a, b):
    return (not a) or b


def iff(a, b):
    return bool(a) == bool(b)


def ite(c, a, b):
    return a if c else b


def forall(lo, hi, f):
    return all(f(j) for j in range(lo, hi))


def exists(lo, hi, f):
    return any(f(j) for j in range(lo, hi))


def contains(s, t):
    return t in s


def startswith(s, t):
    return s.startswith(t)


def endswith(s, t):
    return s.endswith(t)


def empty_nodes():
    return []


def empty_pairs():
    return []


def empty_strs():
    return []


def strs_none():
    return frozenset()


def strs_add(s, x):
    return frozenset(s) | {x}


def strs_remove(s, x):
    return frozenset(s) - {x}


def in_strs(x, s):
    return x in s


def seq_update(xs, i, x):
    ys = list(xs)
    ys[i] = x
    return ys


def is_node(n):
    return isinstance(n, N)


# ---- native scalar-union values (PV): python values themselves; a node is an
# abstract N; anything else is "other"

class Other:
    """a python value outside Union[ScalarType, yaml.Node]"""
    def __init__(self, what=None):
        self.what = what

    def __repr__(self):
        return 'Other(%r)' % (self.what,)


def pv_is_str(v):
    return isinstance(v, str)


def pv_is_bool(v):
    return isinstance(v, bool)


def pv_is_int(v):
    return isinstance(v, int) and not isinstance(v, bool)


def pv_is_float(v):
    return isinstance(v, float)


def pv_is_none(v):
    return v is None


def pv_is_node(v):
    return isinstance(v, N)


def pv_is_other(v):
    return not (v is None or isinstance(v, (str, bool, int, float, N)))


def pv_str(v):
    return v


def pv_bool(v):
    return v


def pv_int(v):
    return v


def pv_float(v):
    return v


def pv_node(v):
    return v


def mk_pv_str(v):
    return v


def mk_pv_int(v):
    return v


def mk_pv_bool(v):
    return v


def mk_pv_float(v):
    return v


def mk_pv_none():
    return None


def pv(v):
    return v


def str_of_int(i):
    return str(i)


def str_of_float(f):
    return str(f)


def float_of_int(i):
    return float(i)


def lower(s):
    return s.lower()


def markstr(m):
    return str(m)


# ---- type terms, natively: tagged tuples

class TyT(tuple):
    def __repr__(self):
        return 'Ty' + tuple.__repr__(self)


T_STR, T_INT, T_FLOAT, T_BOOL = TyT(('Str',)), TyT(('Int',)), TyT(('Float',)), TyT(('Bool',))
T_BOOLFIX, T_NONE, T_NONETYPE = TyT(('BoolFix',)), TyT(('None',)), TyT(('NoneType',))
T_DATE, T_PATH, T_ANY, T_ANYSENT = TyT(('Date',)), TyT(('Path',)), TyT(('Any',)), TyT(('AnySent',))
T_PYLIST, T_PYDICT = TyT(('PyList',)), TyT(('PyDict',))


def T_LIST(e):
    return TyT(('List', e))


def T_DICT(k, v):
    return TyT(('Dict', k, v))


def T_UNION(ms):
    return TyT(('Union', tuple(ms)))


def T_CLASS(cid):
    return TyT(('Class', cid))


def T_OTHER(oid):
    return TyT(('Other', oid))


def pv_equal(a, b):
    return a == b


def dashed(s):
    return s.replace('_', '-')


def undashed(s):
    return s.replace('-', '_')


# ---- type terms and constructed Python values, natively (spec/construct.py)

def ty_is_union(t):
    return t[0] == 'Union'


def ty_members(t):
    return list(t[1])


def ty_is_list(t):
    return t[0] == 'List'


def ty_elem(t):
    return t[1]


def ty_is_dict(t):
    return t[0] == 'Dict'


def ty_key(t):
    return t[1]


def ty_dval(t):
    return t[2]


def py_is_list(o):
    return isinstance(o, list)


def py_is_dict(o):
    return isinstance(o, dict)


def py_is_bool(o):
    return isinstance(o, bool)


def py_is_str(o):
    return isinstance(o, str)


def py_str(o):
    return o


def py_items(o):
    return list(o) if isinstance(o, list) else []


def py_keys(o):
    return list(o.keys()) if isinstance(o, dict) else []


def py_vals(o):
    return list(o.values()) if isinstance(o, dict) else []


def py_has(o, name):
    return name in o


def py_get(o, name):
    return o[name]


def py_inst(o, t):
    from pyvc import native_types
    return isinstance(o, native_types.conc_type(t))
