"""Native side of the contracts (DESIGN 5.2b, 6): abstraction of live objects to
spec values, run-time evaluation of the same sidecar contract clauses the
prover uses, and replay of solver counterexamples against the REAL functions.

Runs under /venv/bin/python (the interpreter that has yatiml and PyYAML); it
must not import z3."""
import ast
import importlib
import importlib.util
import json
import os
import re
import sys
import traceback
import types

VERIF = os.path.dirname(os.path.dirname(os.path.abspath(__file__)))
if VERIF not in sys.path:
    sys.path.insert(0, VERIF)

from pyvc import specrt                     # noqa: E402
from pyvc.specrt import N, P, SCALAR, SEQ, MAP, OTHER     # noqa: E402
from pyvc.contracts import ContractSet      # noqa: E402


# ----------------------------------------------------------------- sexpr
_TOK = re.compile(r'\s*(\(|\)|"(?:[^"]|"")*"|[^\s()]+)')


def parse_sexpr(text):
    toks = _TOK.findall(text)
    pos = [0]

    def rd():
        t = toks[pos[0]]
        pos[0] += 1
        if t == '(':
            out = []
            while toks[pos[0]] != ')':
                out.append(rd())
            pos[0] += 1
            return out
        return t
    return rd()


def smt_unescape(body):
    body = body.replace('""', '"')

    def rep(m):
        return chr(int(m.group(1) or m.group(2), 16))
    return re.sub(r'\\u\{([0-9a-fA-F]+)\}|\\u([0-9a-fA-F]{4})', rep, body)


class Bad(Exception):
    pass


def sexpr_value(e, env=None):
    """s-expression of a z3 model value -> native spec value.  Fields the
    model leaves arbitrary (the never-a-node base constructor, items of a
    mapping, ...) are normalised to well-formed defaults: the native replay
    is the judge of the resulting input."""
    env = env or {}
    if isinstance(e, str):
        if e in env:
            return env[e]
        if e.startswith('"'):
            return smt_unescape(e[1:-1])
        if re.fullmatch(r'-?\d+', e):
            return int(e)
        if e in ('true', 'false'):
            return e == 'true'
        if e.startswith('K_'):
            return e[2:]
        if e in ('pv_None', 'py_None'):
            return None
        if e == 'yn_Bad':
            return N(SCALAR, 'tag:yaml.org,2002:str', '', [], [], 0, 0)
        if e.startswith('ty_'):
            return specrt.TyT((e[3:],))
        if e.startswith('Fl!val!'):
            return 1000.5 + int(e[7:])
        raise Bad('atom ' + e)
    h = e[0]
    if h == 'let':
        env2 = dict(env)
        for (nm, val) in e[1]:
            env2[nm] = sexpr_value(val, env2)
        return sexpr_value(e[2], env2)
    if h == '-' and len(e) == 2:
        return -sexpr_value(e[1], env)
    if h == 'as' and e[1] == 'seq.empty':
        return []
    if h == 'seq.unit':
        return [sexpr_value(e[1], env)]
    if h == 'seq.++':
        out = []
        for x in e[1:]:
            out.extend(sexpr_value(x, env))
        return out
    if h == 'yn_N':
        f = [sexpr_value(x, env) for x in e[1:]]
        kind = f[0]
        return N(kind, f[1], f[2] if kind == SCALAR else '',
                 f[3] if kind == SEQ else [], f[4] if kind == MAP else [],
                 f[5], f[6])
    if h == 'yp_P':
        return P(sexpr_value(e[1], env), sexpr_value(e[2], env))
    if h in ('pv_Str', 'pv_Int', 'pv_Bool', 'pv_Float', 'pv_Node'):
        return sexpr_value(e[1], env)
    if h == 'pv_Other':
        return specrt.Other(sexpr_value(e[1], env))
    if h.startswith('ty_'):
        return specrt.TyT((h[3:],) + tuple(sexpr_value(x, env) for x in e[1:]))
    if h == 'py_Dict':
        return ('__dict__', sexpr_value(e[1], env), sexpr_value(e[2], env))
    if h == 'py_List':
        return sexpr_value(e[1], env)
    if h in ('py_Bool', 'py_Int', 'py_Float', 'py_Str'):
        return sexpr_value(e[1], env)
    if h == 'py_Obj':
        return ('__obj__', sexpr_value(e[1], env))
    if h == 'py_Other':
        return ('__other__',)
    if h == 'er_E':
        return (sexpr_value(e[1], env), sexpr_value(e[2], env))
    raise Bad('term ' + str(h))


# ----------------------------------------------------------- abstraction
class NotATree(Exception):
    pass


def abs_node(node, seen=None):
    """live yaml.Node graph -> N value (raises NotATree on sharing)"""
    import yaml
    if seen is None:
        seen = set()
    if id(node) in seen:
        raise NotATree()
    seen.add(id(node))
    sm = getattr(node, 'start_mark', None)
    em = getattr(node, 'end_mark', None)
    if isinstance(node, yaml.ScalarNode):
        return N(SCALAR, node.tag, node.value, [], [], sm, em)
    if isinstance(node, yaml.SequenceNode):
        return N(SEQ, node.tag, '', [abs_node(x, seen) for x in node.value],
                 [], sm, em)
    if isinstance(node, yaml.MappingNode):
        return N(MAP, node.tag, '', [],
                 [P(abs_node(k, seen), abs_node(v, seen))
                  for k, v in node.value], sm, em)
    return N(OTHER, getattr(node, 'tag', ''), '', [], [], sm, em)


_MARKS = {}


def mk_mark(i):
    import yaml
    if i not in _MARKS:
        if i == -1:
            _MARKS[i] = yaml.Mark('generated node', 0, 0, 0, None, 0)
        else:
            _MARKS[i] = yaml.Mark('<replay>', i, i if i >= 0 else 0, 0, None,
                                  0)
    return _MARKS[i]


def conc_node(n):
    """N value (from a model) -> fresh live yaml nodes"""
    import yaml
    sm = mk_mark(n.smark) if isinstance(n.smark, int) else n.smark
    em = mk_mark(n.emark) if isinstance(n.emark, int) else n.emark
    if n.kind == SCALAR:
        return yaml.ScalarNode(n.tag, n.val, sm, em)
    if n.kind == SEQ:
        return yaml.SequenceNode(n.tag, [conc_node(x) for x in n.items], sm,
                                 em)
    if n.kind == MAP:
        return yaml.MappingNode(n.tag, [(conc_node(p.k), conc_node(p.v))
                                        for p in n.pairs], sm, em)
    o = yaml.Node(n.tag, None, sm, em)
    return o


def norm_marks(n, table=None):
    """replace Mark objects by small ints so that values can be compared and
    printed (same object -> same int)"""
    if table is None:
        table = {}

    def m(x):
        if isinstance(x, int) or x is None:
            return x
        return table.setdefault(id(x), len(table))
    return N(n.kind, n.tag, n.val, [norm_marks(x, table) for x in n.items],
             [P(norm_marks(p.k, table), norm_marks(p.v, table))
              for p in n.pairs], m(n.smark), m(n.emark))


def abs_pv(v):
    import yaml
    if isinstance(v, yaml.Node):
        return abs_node(v)
    if v is None or isinstance(v, (str, int, float, bool)):
        return v
    return specrt.Other(repr(v))


def show(v, depth=0):
    if isinstance(v, N):
        if v.kind == SCALAR:
            return '%s<%s>' % (json.dumps(v.val), v.tag.replace(
                'tag:yaml.org,2002:', '!!'))
        if v.kind == SEQ:
            return '[%s]<%s>' % (', '.join(show(x) for x in v.items),
                                 v.tag.replace('tag:yaml.org,2002:', '!!'))
        if v.kind == MAP:
            return '{%s}<%s>' % (', '.join(
                '%s: %s' % (show(p.k), show(p.v)) for p in v.pairs),
                v.tag.replace('tag:yaml.org,2002:', '!!'))
        return 'Other<%s>' % v.tag
    return repr(v)


# -------------------------------------------------------- clause evaluation
class NativeSpecs:
    """namespace in which clause expressions are evaluated natively"""

    def __init__(self):
        ns = {}
        for k in dir(specrt):
            if not k.startswith('_'):
                ns[k] = getattr(specrt, k)
        sdir = os.path.join(VERIF, 'spec')
        mods = []
        for fn in sorted(os.listdir(sdir)):
            if fn.endswith('.py') and not fn.startswith('_'):
                spec = importlib.util.spec_from_file_location(
                    'vspec_' + fn[:-3], os.path.join(sdir, fn))
                mod = importlib.util.module_from_spec(spec)
                spec.loader.exec_module(mod)
                mods.append(mod)
                for k, v in vars(mod).items():
                    if not k.startswith('_'):
                        ns[k] = v
        # spec files refer to each other's functions: one shared namespace
        for mod in mods:
            for k, v in ns.items():
                if k not in vars(mod):
                    setattr(mod, k, v)
        self.ns = ns


class _Old(ast.NodeTransformer):
    """old(e) -> __old[k], e collected for evaluation in the pre-state"""

    def __init__(self):
        self.exprs = []

    def visit_Call(self, n):
        if isinstance(n.func, ast.Name) and n.func.id == 'old':
            self.exprs.append(n.args[0])
            return ast.copy_location(ast.Subscript(
                value=ast.Name(id='__old', ctx=ast.Load()),
                slice=ast.Constant(len(self.exprs) - 1), ctx=ast.Load()), n)
        self.generic_visit(n)
        return _lazy(n)


def _lazy(n):
    """implies(a, b) / ite(c, a, b) evaluate lazily, as the prover reads them
    (a consequent that indexes out of range under a false antecedent is not
    an error)"""
    if isinstance(n, ast.Call) and isinstance(n.func, ast.Name):
        if n.func.id == 'implies' and len(n.args) == 2:
            return ast.copy_location(ast.BoolOp(op=ast.Or(), values=[
                ast.UnaryOp(op=ast.Not(), operand=n.args[0]), n.args[1]]), n)
        if n.func.id == 'ite' and len(n.args) == 3:
            return ast.copy_location(ast.IfExp(
                test=n.args[0], body=n.args[1], orelse=n.args[2]), n)
    return n


class _Lazy(ast.NodeTransformer):
    def visit_Call(self, n):
        self.generic_visit(n)
        return _lazy(n)


def _ev(expr, env, ns):
    import copy
    expr = _Lazy().visit(copy.deepcopy(expr))
    code = compile(ast.fix_missing_locations(ast.Expression(body=expr)),
                   '<clause>', 'eval')
    g = dict(ns)
    g.update(env)
    return eval(code, g)


def eval_clause(expr, pre_env, post_env, ns):
    import copy
    tr = _Old()
    e2 = tr.visit(copy.deepcopy(expr))
    olds = [_ev(x, pre_env, ns) for x in tr.exprs]
    env = dict(post_env)
    env['__old'] = olds
    return _ev(e2, env, ns)


# ------------------------------------------------------------- real code
def real_function(qual):
    """'yatiml/helpers.py::Node.set_attribute' -> (class or None, callable)"""
    rel, name = qual.split('::')
    mod = importlib.import_module(rel[:-3].replace('/', '.'))
    parts = name.split('.')
    if len(parts) == 1:
        return None, getattr(mod, parts[0])
    cls = getattr(mod, parts[0])
    m = parts[1]
    if m.startswith('__') and not m.endswith('__'):
        m = '_%s%s' % (parts[0].lstrip('_'), m)
    return cls, getattr(cls, m)


class Outcome:
    def __init__(self):
        self.pre_ok = True
        self.failures = []      # (clause kind, text)
        self.exception = None
        self.result = None
        self.detail = {}


class Monitor:
    """evaluate a sidecar contract around one call of the real function"""

    def __init__(self, contracts=None, specs=None):
        self.contracts = contracts or ContractSet(os.path.join(VERIF,
                                                               'contracts'))
        self.specs = specs or NativeSpecs()
        self.evaluations = 0

    # objects -> abstract env
    def abs_self(self, qual, obj):
        cqual = qual.rsplit('.', 1)[0]
        fields = self.contracts.fields.get(cqual)
        ns = types.SimpleNamespace()
        if fields:
            for f, k in fields.items():
                try:
                    v = self.get_field(obj, f)
                except AttributeError:
                    continue        # not set yet (e.g. Constructor.__loader)
                setattr(ns, f, self.abs_by_key(k, v))
        return ns

    def get_field(self, obj, f):
        if hasattr(obj, f):
            return getattr(obj, f)
        for k, v in vars(obj).items():
            if k.endswith(f) and k.startswith('_'):
                return v
        raise AttributeError(f)

    def abs_by_key(self, key, v):
        if key == 'node':
            return abs_node(v)
        if key == 'PV':
            return abs_pv(v)
        if key == 'Ty':
            from pyvc import native_types
            return native_types.abs_type(v)
        if key == 'resolver':
            return None
        return v

    def param_key(self, c, fn, p):
        if p in c.sorts:
            return c.sorts[p]
        ann = fn.__annotations__.get(p) if hasattr(fn, '__annotations__') \
            else None
        return None

    def abs_args(self, qual, c, fn, self_obj, args, kwargs, keys):
        env = {}
        if self_obj is not None:
            env['self'] = self.abs_self(qual, self_obj)
        for p, v in args.items():
            env[p] = self.abs_by_key(keys.get(p), v)
        return env

    def run(self, qual, self_obj, args, keys, call=None):
        """args: ordered dict param -> live value; keys: param -> sort key.
        -> Outcome"""
        c = self.contracts.get(qual)
        cls, fn = real_function(qual)
        out = Outcome()
        ns = self.specs.ns
        self.evaluations += 1
        try:
            pre_env = self.abs_args(qual, c, fn, self_obj, args, {}, keys)
        except NotATree:
            out.pre_ok = False
            out.detail['not_a_tree'] = True
            return out
        for r in c.requires:
            try:
                if not _ev(r, pre_env, ns):
                    out.pre_ok = False
                    out.detail['requires'] = ast.unparse(r)
                    return out
            except Exception as ex:
                out.pre_ok = False
                out.detail['requires_error'] = '%s: %r' % (ast.unparse(r), ex)
                return out
        try:
            if call is not None:
                result = call()
            elif self_obj is not None:
                result = fn(self_obj, *args.values())
            else:
                result = fn(*args.values())
            out.result = result
        except Exception as ex:      # noqa
            out.exception = ex
            out.detail['traceback'] = traceback.format_exc(limit=6)
        try:
            post_env = self.abs_args(qual, c, fn, self_obj, args, {}, keys)
        except NotATree:
            out.failures.append(('model', 'node graph is no longer a tree'))
            return out
        if out.exception is not None:
            ename = type(out.exception).__name__
            mro = [k.__name__ for k in type(out.exception).__mro__]
            for (name, when) in c.raises:
                if name in mro:
                    if when is not None:
                        try:
                            ok = eval_clause(when, pre_env, pre_env, ns)
                        except Exception as ex:
                            out.detail.setdefault('not_evaluable', []).append(
                                'raises:%s: %r' % (name, ex))
                            ok = True
                        if not ok:
                            out.failures.append((
                                'raises:' + name,
                                '%s raised although: not (%s)' % (
                                    ename, ast.unparse(when))))
                    break
            else:
                out.failures.append(('escape:' + ename,
                                     '%s must not escape: %s' % (
                                         ename, out.exception)))
        else:
            post_env['result'] = self.abs_result(c, out.result)
            for k, e in enumerate(c.ensures):
                try:
                    ok = eval_clause(e, pre_env, post_env, ns)
                except Exception as ex:
                    # a clause the native evaluator cannot evaluate decides
                    # nothing (never a failure of the code)
                    out.detail.setdefault('not_evaluable', []).append(
                        'ensures#%d: %r' % (k, ex))
                    continue
                if not ok:
                    out.failures.append(('ensures#%d' % k, ast.unparse(e)))
        # frame: node-valued things outside modifies keep their value
        mods = {ast.unparse(m) for m in c.modifies} | {
            ast.unparse(m) for m in c.rebinds}
        for name in self.node_places(pre_env):
            if name in mods:
                continue
            a = self.lookup(pre_env, name)
            b = self.lookup(post_env, name)
            if a != b:
                out.failures.append(('frame:' + name,
                                     '%s changed but is not in modifies'
                                     % name))
        return out

    def node_places(self, env):
        out = []
        for k, v in env.items():
            if isinstance(v, N):
                out.append(k)
            elif isinstance(v, types.SimpleNamespace):
                for f, x in vars(v).items():
                    if isinstance(x, N):
                        out.append('%s.%s' % (k, f))
        return out

    def lookup(self, env, name):
        parts = name.split('.')
        v = env[parts[0]]
        for p in parts[1:]:
            v = getattr(v, p)
        return v

    def abs_result(self, c, r):
        import yaml
        if isinstance(r, yaml.Node):
            return abs_node(r)
        if hasattr(r, 'yaml_node') and isinstance(
                getattr(r, 'yaml_node'), yaml.Node):
            return types.SimpleNamespace(yaml_node=abs_node(r.yaml_node))
        if isinstance(r, (set, frozenset, list, tuple)) and c.results in (
                'Set[Ty]',):
            from pyvc import native_types
            return {native_types.abs_type(t) for t in r}
        return r


# ------------------------------------------------------------------ replay
def build_self(qual, fields_model):
    """construct the receiver object of a method from model values"""
    import yatiml.helpers as H
    cls, fn = real_function(qual)
    cname = cls.__name__
    if cname == 'Node':
        return H.Node(conc_node(fields_model['yaml_node']))
    if cname == 'UnknownNode':
        from yatiml.recognizer import Recognizer
        return H.UnknownNode(Recognizer({}, {}),
                             conc_node(fields_model['yaml_node']))
    if cname == 'Constructor':
        from yatiml.constructors import Constructor
        return Constructor(object)
    raise Bad('no receiver factory for ' + cname)


def conc_value(key, v):
    if key == 'node':
        return conc_node(v)
    if key == 'PV':
        if isinstance(v, N):
            return conc_node(v)
        if isinstance(v, specrt.Other):
            return object()
        return v
    if key == 'Ty':
        from pyvc import native_types
        try:
            return native_types.conc_type(v)
        except native_types.Bad as b:
            raise Bad(str(b))
    if key == 'PyV':
        from pyvc import native_types
        return native_types.conc_pyv(v)
    return v


def replay_obligation(rec, monitor=None):
    """rec: the replay record written by the checker.  -> dict verdict.
    First the solver's model is concretised and run; where that does not
    reproduce (models of obligations with bounded unfolding of recursive spec
    functions can be spurious) and every input is of an enumerable sort, a
    small contract-guided search over inputs follows: the contract itself,
    evaluated natively around the REAL function, is the oracle."""
    monitor = monitor or Monitor()
    try:
        v = replay_model(rec, monitor)
    except Bad as b:
        v = {'reproduced': False,
             'error': 'model not concretisable: %s' % b}
    if v.get('reproduced'):
        v['found_by'] = 'solver model'
        return v
    s = replay_search(rec, monitor)
    if s is None:
        try:
            s = replay_search_node(rec, monitor)
        except Bad:
            s = None
    if s is not None:
        s['model_replay'] = {k: v.get(k) for k in ('inputs', 'error',
                                                  'failures')}
        return s
    return v


def replay_search(rec, monitor, limit=200000):
    from pyvc import native_types
    qual = rec['function']
    inputs = rec['inputs']
    names = [n for n in inputs if not n.startswith('self.')]
    keys = {n: inputs[n]['key'] for n in names}
    if not names or any(k not in ('PyV', 'Ty') for k in keys.values()):
        return None
    cls, fn = real_function(qual)
    import inspect
    import itertools
    order = [p for p in inspect.signature(fn).parameters if p != 'self'
             and p in keys]
    pools = []
    for p in order:
        if keys[p] == 'PyV':
            pools.append(native_types.small_values(1))
        else:
            pools.append(native_types.small_types(2))
    self_obj = build_self(qual, {}) if cls is not None else None
    n = 0
    for combo in itertools.product(*pools):
        n += 1
        if n > limit:
            break
        args = {}
        try:
            for p, v in zip(order, combo):
                args[p] = conc_value(keys[p], v) if keys[p] == 'Ty' else v
        except Bad:
            continue
        out = monitor.run(qual, self_obj, args, keys)
        if out.pre_ok and out.failures:
            return {'function': qual,
                    'inputs': {p: repr(a) for p, a in args.items()},
                    'precondition_holds': True,
                    'exception': repr(out.exception) if out.exception
                    else None,
                    'result': repr(out.result),
                    'failures': out.failures, 'reproduced': True,
                    'found_by': 'contract-guided bounded search over small '
                    'inputs (%d tried) after the solver model did not '
                    'replay' % n}
    return None


def small_nodes(pair_items=None):
    """a family of small mapping nodes around one attribute 'items' whose value
    is a scalar, a sequence or a mapping of up to two small items (scalars or
    mappings over the keys id / val / x) - the shapes the structural
    transforms and the accessors distinguish"""
    STRT, INTT, MAPT, SEQT = ('tag:yaml.org,2002:str',
                              'tag:yaml.org,2002:int',
                              'tag:yaml.org,2002:map',
                              'tag:yaml.org,2002:seq')
    cnt = [0]

    def mark():
        cnt[0] += 1
        return cnt[0]

    def sc(v, tag=STRT):
        return lambda: N(SCALAR, tag, v, [], [], mark(), mark())

    def mp(pairs):
        return lambda: N(MAP, MAPT, '', [], [P(k(), v()) for k, v in pairs],
                         mark(), mark())

    def sq(items):
        return lambda: N(SEQ, SEQT, '', [x() for x in items], [], mark(),
                         mark())
    leafs = [sc('a'), sc('b'), sc('7', INTT)]
    inner = [mp([]), mp([(sc('id'), sc('a'))]),
             mp([(sc('id'), sc('b')), (sc('val'), sc('v'))]),
             mp([(sc('val'), sc('v')), (sc('id'), sc('a'))]),
             mp([(sc('id'), sc('a')), (sc('val'), sc('v')),
                 (sc('x'), sc('1', INTT))]),
             mp([(sc('id'), sc('7', INTT))]),
             mp([(sc('id'), sc('a')), (sc('id'), sc('b'))]),
             mp([(sc('val'), mp([(sc('x'), sc('y'))]))])]
    items = leafs[:2] + inner
    values = [sc('s')]
    import itertools
    for n in (0, 1, 2):
        pool = items if (n < 2 or pair_items is None) else \
            items[:2] + items[3:3 + pair_items]
        for combo in itertools.product(pool, repeat=n):
            values.append(sq(list(combo)))
            keys = [sc('a'), sc('b')][:n]
            values.append(mp(list(zip(keys, combo))))
    out = []
    for v in values:
        out.append(mp([(sc('items'), v)]))
        out.append(mp([(sc('other'), sc('o')), (sc('items'), v)]))
    out.append(mp([]))
    out.append(mp([(sc('items'), sc('s')), (sc('items'), sc('t'))]))
    return out


def replay_search_node(rec, monitor, limit=60000, pair_items=None):
    """contract-guided bounded search for methods of Node / UnknownNode whose
    other inputs are strings, scalar-union values or booleans"""
    import inspect
    import itertools
    qual = rec['function']
    inputs = rec['inputs']
    if set(k for k in inputs if k.startswith('self.')) != {'self.yaml_node'}:
        return None
    names = [n for n in inputs if not n.startswith('self.')]
    keys = {n: inputs[n]['key'] for n in names}
    if any(k not in ('str', 'PV', 'bool') for k in keys.values()):
        return None
    cls, fn = real_function(qual)
    if cls is None or cls.__name__ not in ('Node', 'UnknownNode'):
        return None
    order = [p for p in inspect.signature(fn).parameters if p != 'self'
             and p in keys]
    pool = {'str': ['items', 'id', 'val', 'x'], 'PV': [None, 'val'],
            'bool': [True, False]}
    n = 0
    for mk in small_nodes(pair_items):
        for combo in itertools.product(*[pool[keys[p]] for p in order]):
            n += 1
            if n > limit:
                return None
            nv = mk()
            try:
                self_obj = build_self(qual, {'yaml_node': nv})
            except Bad:
                return None
            args = dict(zip(order, combo))
            out = monitor.run(qual, self_obj, args, keys)
            if out.pre_ok and out.failures:
                return {'function': qual,
                        'inputs': dict({'self.yaml_node': show(nv)},
                                       **{p: repr(a)
                                          for p, a in args.items()}),
                        'precondition_holds': True,
                        'exception': repr(out.exception) if out.exception
                        else None,
                        'failures': out.failures, 'reproduced': True,
                        'found_by': 'contract-guided bounded search over '
                        'small nodes (%d calls of the real method) after the '
                        'solver model did not replay' % n}
    return None


def replay_model(rec, monitor):
    qual = rec['function']
    model = rec.get('model') or {}
    inputs = rec['inputs']          # name -> {'key':..., 'symbol':...}
    vals = {}
    for name, d in inputs.items():
        sx = model.get(d['symbol'])
        if sx is None:
            vals[name] = default_value(d['key'])
        else:
            vals[name] = sexpr_value(parse_sexpr(sx))
    cls, fn = real_function(qual)
    self_obj = None
    if cls is not None:
        fm = {k.split('.', 1)[1]: v for k, v in vals.items()
              if k.startswith('self.')}
        self_obj = build_self(qual, fm)
    args = {}
    keys = {}
    for name, d in inputs.items():
        if name.startswith('self.'):
            continue
        args[name] = conc_value(d['key'], vals[name])
        keys[name] = d['key']
    # order by the real signature
    import inspect
    order = [p for p in inspect.signature(fn).parameters if p != 'self']
    missing = [p for p in order if p not in args and inspect.signature(
        fn).parameters[p].default is inspect.Parameter.empty]
    if missing:
        raise Bad('parameter(s) %s of the real function have no concrete '
                  'counterpart in the replay' % ', '.join(missing))
    if inspect.isgeneratorfunction(fn):
        raise Bad('generator function: not driven by the replay')
    args = {p: args[p] for p in order if p in args}
    out = monitor.run(qual, self_obj, args, keys)
    verdict = {
        'function': qual,
        'inputs': {k: show(v) for k, v in vals.items()},
        'precondition_holds': out.pre_ok,
        'exception': repr(out.exception) if out.exception else None,
        'failures': out.failures,
        'detail': out.detail,
        'reproduced': bool(out.pre_ok and out.failures),
    }
    return verdict


def default_value(key):
    if key == 'node':
        return N(SCALAR, 'tag:yaml.org,2002:str', '', [], [], 0, 0)
    if key == 'str':
        return ''
    if key == 'int':
        return 0
    if key == 'bool':
        return False
    if key == 'PV':
        return None
    if key == 'Ty':
        return specrt.T_STR
    return None


def main(argv):
    if len(argv) >= 2 and argv[0] == 'replay':
        with open(argv[1]) as f:
            rec = json.load(f)
        try:
            v = replay_obligation(rec)
        except Bad as b:
            v = {'reproduced': False, 'error': 'model not concretisable: %s'
                 % b}
        except Exception:
            v = {'reproduced': False, 'error': traceback.format_exc(limit=8)}
        print(json.dumps(v, indent=1, default=str))
        return 0
    print('usage: native.py replay <file>')
    return 2


if __name__ == '__main__':
    sys.exit(main(sys.argv[1:]))
