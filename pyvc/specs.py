"""Spec functions (DESIGN 4.2): pure Python source under /verif/spec, parsed
with ast.  Non-recursive ones are inlined; recursive ones become uninterpreted
symbols whose defining equation is instantiated by the engine at the
applications occurring in an obligation (no define-fun-rec, no quantified
definitional axioms)."""
import ast
import os
import z3
from . import sorts as so


class SpecFun:
    def __init__(self, name, node, module):
        self.name = name
        self.node = node
        self.module = module
        self.params = [a.arg for a in node.args.args]
        self.psorts = [self._sort(a.annotation) for a in node.args.args]
        self.rsort = self._sort(node.returns)
        self.recursive = False
        self.decl = None
        self.unfold = 1
        self.is_lemma = False
        self.induct = None
        self.triggers = []
        self.ih = []        # extra induction-hypothesis instances
        self.assumed = False
        self.local = None
        self.decorated = False
        for d in node.decorator_list:
            if (isinstance(d, ast.Name) and d.id == 'spec') or (
                    isinstance(d, ast.Call) and getattr(d.func, 'id', '')
                    == 'spec'):
                self.decorated = True
        for d in node.decorator_list:
            if isinstance(d, ast.Call) and getattr(d.func, 'id', '') == 'spec':
                for kw in d.keywords:
                    if kw.arg == 'unfold':
                        self.unfold = kw.value.value
                    if kw.arg == 'local':
                        # (sequence parameter, index parameter): the body
                        # reads only seq[index-1] and itself at index-1
                        self.local = tuple(e.value for e in kw.value.elts)
            if isinstance(d, ast.Call) and getattr(d.func, 'id', '') == 'lemma':
                self.is_lemma = True
                for kw in d.keywords:
                    if kw.arg == 'induct':
                        self.induct = kw.value.value
                    elif kw.arg == 'triggers':
                        self.triggers = [ast.parse(x.value, mode='eval').body
                                         for x in kw.value.elts]
                    elif kw.arg == 'ih':
                        self.ih = [ast.parse(x.value, mode='eval').body
                                   for x in kw.value.elts]
                    elif kw.arg == 'assumed':
                        self.assumed = kw.value.value

    @staticmethod
    def _sort(ann):
        if ann is None:
            raise ValueError('spec functions need sort annotations')
        if isinstance(ann, ast.Constant):
            key = ann.value
        else:
            key = ast.unparse(ann)
        key = key.replace("'", '')
        return so.SORTS[key]

    def mk_decl(self):
        self.decl = z3.Function('sp_' + self.name, *(self.psorts + [self.rsort]))


class SpecLib:
    def __init__(self, spec_dir):
        self.funs = {}
        self.consts = {}
        for fn in sorted(os.listdir(spec_dir)):
            if not fn.endswith('.py') or fn.startswith('_'):
                continue
            with open(os.path.join(spec_dir, fn)) as f:
                tree = ast.parse(f.read(), fn)
            for s in tree.body:
                if isinstance(s, ast.FunctionDef):
                    self.funs[s.name] = SpecFun(s.name, s, fn)
                elif isinstance(s, ast.Assign) and isinstance(
                        s.targets[0], ast.Name):
                    self.consts[s.targets[0].id] = s.value
        # recursion analysis
        calls = {}
        for name, f in self.funs.items():
            cs = set()
            for n in ast.walk(f.node):
                if isinstance(n, ast.Call) and isinstance(n.func, ast.Name) \
                        and n.func.id in self.funs:
                    cs.add(n.func.id)
            calls[name] = cs
        for name in self.funs:
            seen = set()
            stack = list(calls[name])
            while stack:
                c = stack.pop()
                if c == name:
                    self.funs[name].recursive = True
                    break
                if c in seen:
                    continue
                seen.add(c)
                stack.extend(calls[c])
        # a function gets an (uninterpreted symbol + unfolding) treatment iff
        # it is decorated @spec; undecorated ones are always inlined.  Every
        # recursion cycle must contain a decorated function.
        for name, f in self.funs.items():
            if f.is_lemma:
                continue
            if f.recursive and not f.decorated:
                # is there a cycle through `name` avoiding decorated ones?
                seen = set()
                stack = [c for c in calls[name]
                         if not self.funs[c].decorated]
                bad = False
                while stack:
                    c = stack.pop()
                    if c == name:
                        bad = True
                        break
                    if c in seen:
                        continue
                    seen.add(c)
                    stack.extend(x for x in calls[c]
                                 if not self.funs[x].decorated)
                if bad:
                    raise SyntaxError('spec function %s is recursive without '
                                      'a @spec function on the cycle' % name)
            f.recursive = f.decorated
        self.lemmas = {n: f for n, f in self.funs.items() if f.is_lemma}
        for n in self.lemmas:
            del self.funs[n]
        for f in self.funs.values():
            if f.recursive:
                f.mk_decl()
        self.by_decl = {f.decl.name(): f for f in self.funs.values()
                        if f.decl is not None}
