"""Plugin for the type-directed core (recognizer, loader, constructors):
type terms, the class table as uninterpreted functions (= universally
quantified over all class models), sets of types, the registered-classes
dictionary, user hooks as deterministic uninterpreted functions (DESIGN 3.1,
3.4).

Sets of types are arrays Ty -> Bool.  Cardinality tests are expressed with
Skolem choice functions pick/pick2 (quantifier free):
    len(S) == 0   <=>  S == {}
    len(S) == 1   <=>  S[pick S] and S == {pick S}
    len(S) >  1   <=>  S[pick S] and S[pick2 S] and pick S != pick2 S
with the axioms  S != {} => S[pick S]   and
    S[a] and S[b] and a != b  =>  S[pick S] and S[pick2 S] and pick S != pick2 S
instantiated by the engine at the ground Ty terms of each obligation."""
import ast
import z3
from . import sorts as so
from .terms import fresh, seq_len, seq_nth, conj, disj, neg
from .values import *      # noqa
from .state import Unsupported
from . import interp
from .interp import Raise

Ty = so.Ty
B, I, S = so.B, so.I, so.S

ct_name = z3.Function('ct_name', Ty, S)
ct_is_enum = z3.Function('ct_is_enum', Ty, B)
ct_is_strlike = z3.Function('ct_is_strlike', Ty, B)
ct_is_abstract = z3.Function('ct_is_abstract', Ty, B)
ct_isclass = z3.Function('ct_isclass', Ty, B)
ct_own_recognize = z3.Function('ct_own_recognize', Ty, B)
ct_own_savorize = z3.Function('ct_own_savorize', Ty, B)
ct_own_sweeten = z3.Function('ct_own_sweeten', Ty, B)
ct_vis_recognize = z3.Function('ct_vis_recognize', Ty, B)   # hasattr(T, ...)
ct_vis_savorize = z3.Function('ct_vis_savorize', Ty, B)
ct_vis_sweeten = z3.Function('ct_vis_sweeten', Ty, B)
ct_nparams = z3.Function('ct_nparams', Ty, I)
ct_pname = z3.Function('ct_pname', Ty, I, S)
ct_ptype = z3.Function('ct_ptype', Ty, I, Ty)
ct_preq = z3.Function('ct_preq', Ty, I, B)
ct_bases = z3.Function('ct_bases', Ty, so.TySeq)        # T.__bases__
ct_base1 = z3.Function('ct_base1', Ty, Ty)              # T.__base__
hook_recog_ok = z3.Function('hook_recog_ok', Ty, so.YNode, B)
hook_recog_msg = z3.Function('hook_recog_msg', Ty, so.YNode, S)
hook_recog_hasmsg = z3.Function('hook_recog_hasmsg', Ty, so.YNode, B)
# PyYAML's SafeConstructor scalar constructors (E-CONSTRUCT): domain + value
yaml_int_dom = z3.Function('sp_yaml_int_dom', S, B)
yaml_int = z3.Function('sp_yaml_int', S, I)
yaml_float_dom = z3.Function('sp_yaml_float_dom', S, B)
yaml_float = z3.Function('sp_yaml_float', S, so.Fl)
yaml_bool_dom = z3.Function('sp_yaml_bool_dom', S, B)
yaml_bool = z3.Function('sp_yaml_bool', S, B)
enum_has = z3.Function('ct_enum_has', Ty, S, B)           # name in Enum class
hook_new_ok = z3.Function('hook_new_ok', Ty, S, B)        # T(s) does not raise
sp_cites = z3.Function('sp_cites', S, B)      # the text contains some str(mark)
str_of_obj = z3.Function('sp_str_of_obj', S, S)           # str(obj built from s)
hook_sav_ok = z3.Function('hook_sav_ok', Ty, so.YNode, B)
hook_sav = z3.Function('hook_sav', Ty, so.YNode, so.YNode)
hook_sav_msg = z3.Function('hook_sav_msg', Ty, so.YNode, S)
hook_sav_hasmsg = z3.Function('hook_sav_hasmsg', Ty, so.YNode, B)

pick = z3.Function('sp_pick', so.TySet, Ty)
pick2 = z3.Function('sp_pick2', so.TySet, Ty)
diffw = z3.Function('sp_diffw', so.TySet, Ty)     # witness of S != {pick S}
EMPTY_SET = z3.K(Ty, z3.BoolVal(False))
# the registered classes of THE loader under verification (a dict in insertion
# order): global symbolic constants = universally quantified
REG_TAGS = z3.Const('reg_tags', so.StrSeq)
REG_TYPES = z3.Const('reg_types', so.TySeq)
DOC_TYPE = z3.Const('document_type', Ty)          # UserLoader.document_type
COMPOSED = z3.Const('composed_document', so.YNode)    # what PyYAML composed
COMPOSED_NONE = z3.Const('composed_is_none', B)       # empty stream
_OR = z3.Or(z3.Bool('a'), z3.Bool('b')).decl()

ty_args = z3.Function('sp_ty_args', Ty, so.TySeq)
resolve_tag = z3.Function('sp_resolve', S, S)     # BaseResolver.resolve

# wf_ty(t): t is a type of the supported type language over a CLOSED class
# model (every class used in an annotation is registered, dict keys are
# string-like classes).  Uninterpreted; its consequences are class-model
# assumptions (preconditions of the whole load), stated as axioms:
wf_ty = z3.Function('sp_wf_ty', Ty, B)


def wf_axioms(formulas):
    """consequences of wf_ty (class-model assumptions), instantiated at the
    ground terms of the obligation -- no quantifiers (DESIGN 4.2 rule)"""
    tys = {}
    nths = {}
    ptypes = {}
    base_tests = []
    seen = set()
    stack = list(formulas)
    while stack:
        t = stack.pop()
        i = t.get_id()
        if i in seen:
            continue
        seen.add(i)
        if z3.is_quantifier(t):
            continue
        if z3.is_app(t):
            if t.sort() == Ty:
                tys[i] = t
                k = t.decl().kind()
                if k == z3.Z3_OP_SEQ_NTH:
                    nths[i] = t
                elif t.decl().eq(ct_ptype):
                    ptypes[i] = t
            if t.decl().kind() == z3.Z3_OP_SEQ_CONTAINS and z3.is_app(
                    t.arg(0)) and t.arg(0).decl().eq(ct_bases) and \
                    t.arg(1).decl().kind() == z3.Z3_OP_SEQ_UNIT:
                base_tests.append((t.arg(0).arg(0), t.arg(1).arg(0)))
            stack.extend(t.children())
    ax = []
    tl = list(tys.values())[:40]
    reg = lambda x: z3.Contains(REG_TYPES, z3.Unit(x))     # noqa
    for x in tl:
        scalar = z3.Or(*[x == getattr(Ty, nm) for nm in (
            'ty_Str', 'ty_Int', 'ty_Float', 'ty_Bool', 'ty_BoolFix',
            'ty_None', 'ty_NoneType', 'ty_Date')])
        ax.append(z3.Implies(z3.And(wf_ty(x), Ty.is_ty_List(x)),
                             wf_ty(Ty.ty_elem(x))))
        ax.append(z3.Implies(
            z3.And(wf_ty(x), Ty.is_ty_Dict(x)),
            z3.And(ct_isclass(Ty.ty_key(x)), ct_is_strlike(Ty.ty_key(x)),
                   wf_ty(Ty.ty_key(x)), wf_ty(Ty.ty_dval(x)))))
        ax.append(z3.Implies(wf_ty(x), z3.Or(
            scalar, x == Ty.ty_Path, x == Ty.ty_Any, Ty.is_ty_Union(x),
            Ty.is_ty_List(x), Ty.is_ty_Dict(x), reg(x))))
        # the leaves of the type language are well formed
        ax.append(z3.Implies(z3.Or(scalar, x == Ty.ty_Path, x == Ty.ty_Any),
                             wf_ty(x)))
        # registered things are classes -- possibly a built-in scalar class
        # (load_function(int) registers int itself), never a generic alias
        ax.append(z3.Implies(reg(x), z3.And(
            z3.Not(Ty.is_ty_Union(x)), z3.Not(Ty.is_ty_List(x)),
            z3.Not(Ty.is_ty_Dict(x)), x != Ty.ty_Any, x != Ty.ty_Path,
            x != Ty.ty_None, x != Ty.ty_BoolFix, ct_isclass(x), wf_ty(x))))
        # E-BUILTIN-CLASSES: str int float bool date NoneType have no hooks,
        # no typed constructor parameters, are concrete; only str is
        # string-like; none is an enum
        ax.append(z3.Implies(scalar, z3.And(
            ct_nparams(x) == 0, z3.Not(ct_is_enum(x)),
            z3.Not(ct_own_recognize(x)), z3.Not(ct_own_savorize(x)),
            z3.Not(ct_own_sweeten(x)), z3.Not(ct_is_abstract(x)),
            ct_is_strlike(x) == (x == Ty.ty_Str),
            z3.Length(ct_bases(x)) <= 1)))
    # E-BUILTIN-CLASSES: a built-in scalar class has no registered user
    # class among its bases (instantiated where "y in x.__bases__" occurs)
    for (x, y) in base_tests:
        sx = z3.Or(*[x == getattr(Ty, nm) for nm in (
            'ty_Str', 'ty_Int', 'ty_Float', 'ty_Bool', 'ty_Date',
            'ty_NoneType')])
        sy = z3.Or(*[y == getattr(Ty, nm) for nm in (
            'ty_Str', 'ty_Int', 'ty_Float', 'ty_Bool', 'ty_Date',
            'ty_NoneType')])
        ax.append(z3.Implies(
            z3.And(sx, z3.Contains(ct_bases(x), z3.Unit(y)), reg(y)), sy))
    for n in nths.values():
        sq, j = n.arg(0), n.arg(1)
        inb = z3.And(j >= 0, j < z3.Length(sq))
        # members of a well-formed union are well formed
        for x in tl:
            if x.eq(n):
                continue
            ax.append(z3.Implies(
                z3.And(wf_ty(x), Ty.is_ty_Union(x),
                       sq == Ty.ty_members(x), inb), wf_ty(n)))
        # every registered class is a well-formed expected type
        ax.append(z3.Implies(z3.And(sq == REG_TYPES, inb),
                             z3.And(wf_ty(n), reg(n))))
    for pt in ptypes.values():
        c, j = pt.arg(0), pt.arg(1)
        ax.append(z3.Implies(z3.And(reg(c), j >= 0, j < ct_nparams(c)),
                             wf_ty(pt)))
    return ax


def singleton(t):
    return z3.Store(EMPTY_SET, t, z3.BoolVal(True))


def set_union(a, b):
    if a.eq(EMPTY_SET):
        return b
    if b.eq(EMPTY_SET):
        return a
    return z3.Map(_OR, a, b)


def card_is0(s):
    return s == EMPTY_SET


def card_is1(s):
    return z3.And(z3.Select(s, pick(s)), s == singleton(pick(s)))


def card_many(s):
    return z3.And(z3.Select(s, pick(s)), z3.Select(s, pick2(s)),
                  pick(s) != pick2(s))


class VSetLen(V):
    """len(<set of types>): only ever compared with 0 / 1"""
    __slots__ = ('s',)

    def __init__(self, s):
        self.s = s


class VEmptySet(V):
    """set(): element type not yet known"""
    __slots__ = ()


class VRegDict(V):
    """Dict[str, Type] in insertion order: parallel sequences"""
    __slots__ = ('tags', 'types')

    def __init__(self, tags, types):
        self.tags = tags
        self.types = types


class VTyAttr(V):
    """T.__dict__ / T.__bases__"""
    __slots__ = ('t', 'what')

    def __init__(self, t, what):
        self.t = t
        self.what = what


class VHook(V):
    __slots__ = ('t', 'name')

    def __init__(self, t, name):
        self.t = t
        self.name = name


class VParamSeq(V):
    """class_subobjects(T): (name, type, required) of the constructor
    parameters, as a symbolic sequence over the class table"""
    __slots__ = ('t',)

    def __init__(self, t):
        self.t = t


class VPyObj(V):
    """a constructed Python object the model does not look into"""
    __slots__ = ('what', 't', 'arg')

    def __init__(self, what, t=None, arg=None):
        self.what = what
        self.t = t
        self.arg = arg


class VSuper(V):
    __slots__ = ()


class VSelfType(V):
    __slots__ = ('obj',)

    def __init__(self, obj):
        self.obj = obj


class VIterSet(V):
    __slots__ = ('s',)

    def __init__(self, s):
        self.s = s


OWN = {'_yatiml_recognize': ct_own_recognize,
       '_yatiml_savorize': ct_own_savorize,
       '_yatiml_sweeten': ct_own_sweeten}

SPECB = ('tyset_empty', 'tyset_of', 'in_set', 'card0', 'card1', 'cardmany',
         'the', 'set_union', 'set_eq', 'subset_of', 'ty_is_union',
         'ty_is_list', 'ty_is_dict', 'ty_is_class', 'ty_elem', 'ty_key',
         'ty_dval', 'ty_members', 'ty_args', 'mk_list', 'mk_dict',
         'cls_name', 'cls_is_enum', 'cls_is_strlike', 'cls_is_abstract',
         'cls_isclass', 'cls_own_recognize', 'cls_own_savorize',
         'cls_own_sweeten', 'cls_nparams', 'cls_pname', 'cls_ptype',
         'cls_preq', 'cls_bases', 'reg_has', 'reg_has_tag', 'reg_lookup',
         'reg_types', 'reg_tags', 'recog_ok', 'sav_ok', 'sav_result',
         'E', 'err_msg', 'err_causes', 'image_list', 'reg_len', 'set_remove',
         'image_dict_key', 'image_dict_val', 'dashed', 'undashed', 'is_base_of', 'wf_ty', 'forall_in', 'sav_trace', 'empty_tys', 'prefix_of', 'document_type',
         'composed_document', 'yielded', 'is_enum_member', 'is_obj_of',
         'enum_has', 'new_ok', 'yaml_int_dom', 'yaml_float_dom',
         'yaml_bool_dom', 'yaml_int', 'yaml_float', 'yaml_bool', 'enum_name',
         'pystr', 'vis_sweeten', 'cites')


ct_subclass = z3.Function('ct_subclass', Ty, Ty, B)       # issubclass(a, b)
_FORALL = {}       # decl name -> (bound var, body term, skolem function)
_UVAR = z3.Const('u!forall', Ty)


class TypesPlugin:

    # ------------------------------------------------------------- sorts
    def fresh_by_key(self, eng, key, prefix, st):
        if key == 'regdict':
            st.assume(seq_len(REG_TAGS) == seq_len(REG_TYPES))
            return VRegDict(REG_TAGS, REG_TYPES)
        if key == 'adddict':
            # Loader._additional_classes as load_function sets it up
            eng.assume_note('additional classes are {Path: "!Path"} '
                            '(established by load_function; C11/C04 frame)')
            return VDictC([(VTy(Ty.ty_Path), VStr('!Path'))])
        if key == 'dumper':
            # a yaml Dumper: yaml_representers' keys are the classes
            # registered with this dump function
            oid = st.new_obj({'yaml_representers': VSeq(REG_TYPES, 'ty'),
                              '__dumper__': VBool(True)})
            return VObj(oid, None)
        if key == 'enumval':
            return VPyObj('enum', fresh(prefix + '_cls', Ty),
                          fresh(prefix + '_name', S))
        if key == 'strlikeval':
            return VPyObj('strlike', fresh(prefix + '_cls', Ty),
                          fresh(prefix + '_s', S))
        if key == 'pathval':
            return VPyObj('path', None, fresh(prefix + '_s', S))
        if key == 'resolver':
            oid = st.new_obj({'__resolver__': VBool(True)})
            return VObj(oid, None)
        if key == 'opaque':
            return VOpaque(prefix)
        if key == 'RecResult':
            return VTuple((VTySet(fresh(prefix + '_set', so.TySet)),
                           VErr(fresh(prefix + '_err', so.RErr))))
        if key == 'Set[Ty]':
            return VTySet(fresh(prefix, so.TySet))
        return None

    def spec_name(self, eng, name):
        if name in SPECB:
            return VExt('specb.' + name)
        return None

    # ---------------------------------------------------------- attributes
    def value_attr(self, eng, v, name, st):
        if isinstance(v, VPyObj) and v.what == 'enum' and name == 'name':
            return [(st, VStr(v.arg))]
        if isinstance(v, VPyObj) and v.what == 'safe_constructor' and \
                name in ('construct_yaml_int', 'construct_yaml_float',
                         'construct_yaml_bool'):
            return [(st, VExtMethod(v, name))]
        if isinstance(v, VSuper) and name in ('get_single_node', 'get_node'):
            return [(st, VExtMethod(v, name))]
        if isinstance(v, VSelfType) and name == 'document_type':
            return [(st, VTy(DOC_TYPE))]
        if isinstance(v, VTy):
            if name == '__name__':
                return [(st, VStr(ct_name(v.t)))]
            if name in ('__dict__', '__bases__'):
                return [(st, VTyAttr(v.t, name))]
            if name == '__base__':
                return [(st, VTy(ct_base1(v.t)))]
            if name in ('_yatiml_recognize', '_yatiml_savorize',
                        '_yatiml_sweeten'):
                return [(st, VHook(v.t, name))]
        if isinstance(v, VExt) and v.name in interp.BUILTIN_TY:
            return self.value_attr(eng, VTy(interp.BUILTIN_TY[v.name]), name,
                                   st)
        return None

    def contains(self, eng, container, x, st):
        if isinstance(container, VTyAttr):
            if container.what == '__dict__' and isinstance(x, VStr) and \
                    z3.is_string_value(x.t):
                f = OWN.get(x.t.as_string())
                if f is not None:
                    return f(container.t)
            if container.what == '__bases__':
                t = eng.as_ty(x)
                if t is not None:
                    return z3.Contains(ct_bases(container.t), z3.Unit(t))
        if isinstance(container, VRegDict) and isinstance(x, VStr):
            return z3.Contains(container.tags, z3.Unit(x.t))
        if isinstance(container, VEmptySet):
            return z3.BoolVal(False)
        if isinstance(container, VSeq) and container.elem == 'ty':
            t = eng.as_ty(x)
            if t is not None:
                return z3.Contains(container.t, z3.Unit(t))
        return None

    def subscript(self, eng, base, idx, st, node):
        if isinstance(base, VExt) and base.name in (
                'typing.List', 'typing.Sequence', 'typing.MutableSequence'):
            t = eng.as_ty(idx)
            if t is not None:
                return [(st, VTy(Ty.ty_List(t)))]
        if isinstance(base, VExt) and base.name in (
                'typing.Dict', 'typing.Mapping', 'typing.MutableMapping') \
                and isinstance(idx, VTuple) and len(idx.items) == 2:
            k, v = eng.as_ty(idx.items[0]), eng.as_ty(idx.items[1])
            if k is not None and v is not None:
                return [(st, VTy(Ty.ty_Dict(k, v)))]
        if isinstance(base, VTy) and isinstance(idx, (VStr, VNodeValue)):
            # EnumClass[name]: KeyError unless a member of that name exists
            a = idx
            if isinstance(a, VNodeValue):
                a = eng.models.str_of(eng, a, st)
            out = []
            for s2, good in eng.branch(st, enum_has(base.t, a.t)):
                if good:
                    out.append((s2, VPyObj('enum', base.t, a.t)))
                else:
                    out.append((s2, Raise(VExc('KeyError', (), getattr(
                        node, 'lineno', 0)))))
            return out
        if isinstance(base, VRegDict) and isinstance(idx, VStr):
            inn = z3.Contains(base.tags, z3.Unit(idx.t))
            out = []
            for s, ok in eng.branch(st, inn):
                if ok:
                    i = z3.IndexOf(base.tags, z3.Unit(idx.t), 0)
                    s.assume(z3.And(i >= 0, i < seq_len(base.tags)))
                    out.append((s, VTy(seq_nth(base.types, i))))
                else:
                    out.append((s, Raise(VExc('KeyError', (),
                                              getattr(node, 'lineno', 0)))))
            return out
        return None

    def call_method(self, eng, recv, name, args, kwargs, st, node):
        if isinstance(recv, VObj) and name == 'resolve':
            return self.call_method_resolve(eng, args, st)
        if isinstance(recv, VObj) and name == 'represent_str':
            eng.assume_note('E-REPRESENT: represent_str(s) is a scalar node '
                            'tagged str holding s')
            a = args[0]
            if not isinstance(a, VStr):
                raise Unsupported('represent_str of a non-str', node)
            from .terms import mk_scalar
            return [(st, st.new_root(mk_scalar(
                z3.StringVal('tag:yaml.org,2002:str'), a.t, so.GEN_MARK,
                so.GEN_MARK), 'n'))]
        if isinstance(recv, VPyObj) and recv.what == 'safe_constructor':
            eng.assume_note('E-CONSTRUCT: SafeConstructor.construct_yaml_int/'
                            'float/bool as uninterpreted (domain, value); '
                            'ValueError / KeyError outside the domain')
            n = eng.node_term(args[0], st)
            line = getattr(node, 'lineno', 0)
            if not st.entails(so.n_kind(n) == so.K_SCALAR):
                raise Unsupported('scalar constructor on a possibly '
                                  'non-scalar node', node)
            val = so.n_val(n)
            dom, fun, wrapv, exc = {
                'construct_yaml_int': (yaml_int_dom, yaml_int, VInt,
                                       'ValueError'),
                'construct_yaml_float': (yaml_float_dom, yaml_float, VFloat,
                                         'ValueError'),
                'construct_yaml_bool': (yaml_bool_dom, yaml_bool, VBool,
                                        'KeyError')}[name]
            out = []
            for s2, good in eng.branch(st, dom(val)):
                if good:
                    out.append((s2, wrapv(fun(val))))
                else:
                    out.append((s2, Raise(VExc(exc, (), line))))
            return out
        if isinstance(recv, VSuper) and name in ('get_single_node',
                                                 'get_node'):
            eng.assume_note('E-COMPOSE: PyYAML parse+compose yields YAMLError, '
                            'None (no document) or a node tree of Scalar/'
                            'Sequence/Mapping nodes')
            out = []
            s1 = st.fork().assume(COMPOSED_NONE)
            out.append((s1, NONE))
            s2 = st.fork().assume(z3.Not(COMPOSED_NONE))
            s2.assume(so.is_N(COMPOSED))
            out.append((s2, s2.new_root(COMPOSED, 'd')))
            s3 = st.fork()
            out.append((s3, Raise(VExc('YAMLError', (), getattr(
                node, 'lineno', 0)))))
            return out
        if isinstance(recv, VRegDict):
            if name == 'values':
                return [(st, VSeq(recv.types, 'ty'))]
            if name == 'keys':
                return [(st, VSeq(recv.tags, 'str'))]
        return None

    # --------------------------------------------------------------- sets
    def tyset(self, eng, v):
        if isinstance(v, VTySet):
            return v.t
        if isinstance(v, VEmptySet):
            return EMPTY_SET
        if isinstance(v, VListC):
            t = EMPTY_SET
            for x in v.items:
                ty = eng.as_ty(x)
                if ty is None:
                    return None
                t = z3.Store(t, ty, z3.BoolVal(True))
            return t
        return None

    def len_of(self, eng, v, st):
        if isinstance(v, VParamSeq):
            return VInt(ct_nparams(v.t))
        if isinstance(v, VTySet):
            return VSetLen(v.t)
        if isinstance(v, VEmptySet):
            return VInt(0)
        return None

    def compare(self, eng, op, a, b, st):
        if isinstance(a, VSetLen) and isinstance(b, VInt) and \
                z3.is_int_value(b.t):
            k = b.t.as_long()
            s = a.s
            tbl = {
                (ast.Eq, 0): card_is0(s), (ast.NotEq, 0): neg(card_is0(s)),
                (ast.Gt, 0): neg(card_is0(s)),
                (ast.Eq, 1): card_is1(s), (ast.NotEq, 1): neg(card_is1(s)),
                (ast.Gt, 1): card_many(s),
                (ast.GtE, 1): neg(card_is0(s)),
                (ast.Lt, 1): card_is0(s),
            }
            r = tbl.get((type(op), k))
            if r is None:
                raise Unsupported('len(set) compared with %s %d' % (
                    type(op).__name__, k))
            return r
        return None

    def truth(self, eng, v, st):
        if isinstance(v, VEmptySet):
            return z3.BoolVal(False)
        if isinstance(v, VTySet):
            return neg(card_is0(v.t))
        return None

    def mutate(self, eng, target, recv, name, args, st, node):
        line = getattr(node, 'lineno', 0)
        if isinstance(recv, (VTySet, VEmptySet)) and name == 'remove':
            s = self.tyset(eng, recv)
            t = eng.as_ty(args[0])
            out = []
            for s2, inn in eng.branch(st, z3.Select(s, t)):
                if inn:
                    new = VTySet(z3.Store(s, t, z3.BoolVal(False)))
                    out.extend(eng.models.store_back(eng, target, new, s2,
                                                     node))
                else:
                    out.append((s2, Raise(VExc('KeyError', (), line))))
            return out
        if isinstance(recv, VEmptySet) and name == 'add':
            x = args[0]
            if isinstance(x, VPV):
                if not st.entails(so.PV.is_pv_Str(x.t)):
                    raise Unsupported('set.add of a non-str', node)
                x = VStr(so.PV.pv_s(x.t))
            if isinstance(x, VStr):
                new = VSetStr(z3.Store(z3.K(so.S, z3.BoolVal(False)), x.t,
                                       z3.BoolVal(True)))
                return eng.models.store_back(eng, target, new, st, node)
            t = eng.as_ty(x)
            if t is not None:
                return eng.models.store_back(eng, target,
                                             VTySet(singleton(t)), st, node)
        return None

    # ------------------------------------------------------------- calls
    def call_ext(self, eng, name, args, kwargs, st, node):
        line = getattr(node, 'lineno', 0)
        if name == 'set' and not args:
            return [(st, VEmptySet())]
        if name == 'super' and not args:
            return [(st, VSuper())]
        if name == 'yaml.constructor.SafeConstructor' and not args:
            return [(st, VPyObj('safe_constructor'))]
        if name == 'difflib.get_close_matches':
            eng.assume_note('E-DIFFLIB: get_close_matches returns a list of '
                            'strings and does not raise')
            return [(st, VSeq(fresh('close_matches', so.StrSeq), 'str'))]
        if name == 'pathlib.Path' and len(args) == 1:
            a = args[0]
            if isinstance(a, VNodeValue):
                a = eng.models.str_of(eng, a, st)
            eng.assume_note('E-PATH: pathlib.Path(str) does not raise')
            return [(st, VPyObj('path', None, a.t if isinstance(a, VStr)
                                else None))]
        if name == 'issubclass':
            t = eng.as_ty(args[0])
            c = args[1]
            if t is not None and isinstance(c, VExt) and c.name == 'enum.Enum':
                return [(st, VBool(ct_is_enum(t)))]
        if name == 'hasattr' and len(args) == 2 and isinstance(
                args[1], VStr) and z3.is_string_value(args[1].t):
            t = eng.as_ty(args[0])
            f = {'_yatiml_recognize': ct_vis_recognize,
                 '_yatiml_savorize': ct_vis_savorize,
                 '_yatiml_sweeten': ct_vis_sweeten}.get(
                     args[1].t.as_string())
            if t is not None and f is not None:
                # visible (possibly inherited) hook: a different fact from
                # "defined in the class's own body"
                return [(st, VBool(f(t)))]
        if name == 'issubclass':
            a, b = eng.as_ty(args[0]), eng.as_ty(args[1])
            if a is not None and b is not None:
                eng.assume_note('issubclass between user classes is an '
                                'uninterpreted reflexive relation')
                st.assume(ct_subclass(a, a))
                return [(st, VBool(ct_subclass(a, b)))]
        if name == 'isclass':
            t = eng.as_ty(args[0])
            if t is not None:
                return [(st, VBool(ct_isclass(t)))]
        if name == 'iter' and isinstance(args[0], (VTySet, VEmptySet)):
            return [(st, VIterSet(self.tyset(eng, args[0])))]
        if name == 'next' and isinstance(args[0], VIterSet):
            s = args[0].s
            out = []
            for s2, ne in eng.branch(st, neg(card_is0(s))):
                if ne:
                    s2.assume(z3.Select(s, pick(s)))
                    out.append((s2, VTy(pick(s))))
                else:
                    out.append((s2, Raise(VExc('StopIteration', (), line))))
            return out
        if name == 'indent':
            eng.assume_note('E-INDENT: textwrap.indent(s, p) of a one-line s '
                            'is p + s')
            if isinstance(args[0], VStr) and isinstance(args[1], VStr):
                return [(st, VStr(z3.Concat(args[1].t, args[0].t)))]
        return None

    def axioms(self, formulas):
        ax = forall_axioms(formulas) + cite_axioms(formulas)
        ax = ax + set_axioms(list(formulas) + ax)
        if _mentions(formulas, ('sp_wf_ty', 'reg_types')):
            ax = ax + wf_axioms(formulas)
        return ax

    def v_eq(self, eng, a, b, st):
        from .values import VSetStr
        for x, y in ((a, b), (b, a)):
            if isinstance(x, VEmptySet) and isinstance(y, VSetStr):
                # a fresh set() compared with a set of strings
                return y.t == z3.K(so.S, z3.BoolVal(False))
        if isinstance(a, (VTySet, VEmptySet)) or isinstance(
                b, (VTySet, VEmptySet)):
            # "collection join": recognize() returns the list [Any] on one
            # path and sets on the others; only len/iter/in are used on it
            sa, sb = self.tyset(eng, a), self.tyset(eng, b)
            if sa is not None and sb is not None:
                return sa == sb
        return None

    def call_generator(self, eng, fn, fv, args, kwargs, st, node):
        if fn.name == 'class_subobjects':
            t = eng.as_ty(args[0])
            if t is None:
                raise Unsupported('class_subobjects of a non-type', node)
            eng.assume_note('E-ARGSPEC/bounded: class_subobjects(T) yields '
                            '(name, annotation-or-Any, required) per '
                            'constructor parameter; checked by the bounded '
                            'reflection stand-in')
            st.assume(ct_nparams(t) >= 0)
            return [(st, VParamSeq(t))]
        return None

    def iter_desc(self, eng, itv, st, node):
        if isinstance(itv, VTyAttr) and itv.what == '__bases__':
            return eng.iter_desc(VSeq(ct_bases(itv.t), 'ty'), st, node)
        if isinstance(itv, VParamSeq):
            t = itv.t
            return [(st, ('sym', lambda s: ct_nparams(t),
                          lambda s, i: VTuple((VStr(ct_pname(t, i)),
                                               VTy(ct_ptype(t, i)),
                                               VBool(ct_preq(t, i)))), itv))]
        return None

    def list_of(self, eng, v, st, node):
        if isinstance(v, VParamSeq):
            return [(st, v)]
        return None

    def set_comprehension(self, eng, e, g, st, itv, kind):
        """{C[t] for t in S} for an injective type constructor C"""
        if kind != 'set' or not isinstance(itv, (VTySet, VEmptySet)):
            return None
        if g.ifs or not isinstance(g.target, ast.Name):
            raise Unsupported('set comprehension over a set of types with a '
                              'filter', e)
        S = self.tyset(eng, itv)
        u0 = fresh('u0', Ty)
        probe = st.fork()
        probe.env[g.target.id] = VTy(u0)
        res = eng.eval(e.elt, probe)
        if len(res) != 1 or isinstance(res[0][1], Raise):
            raise Unsupported('element of a set comprehension forks', e)
        f = eng.as_ty(res[0][1])
        if f is None or not z3.is_app(f):
            raise Unsupported('set comprehension element is not a type', e)
        d = f.decl()
        if d.eq(Ty.ty_List) and f.arg(0).eq(u0):
            R = image(S, lambda t: Ty.ty_List(t))
            mk = lambda t: Ty.ty_List(t)                       # noqa
        elif d.eq(Ty.ty_Dict) and f.arg(0).eq(u0) and not _occurs(
                u0, f.arg(1)):
            other = f.arg(1)
            R = image_dict(S, other, True)
            mk = lambda t: Ty.ty_Dict(t, other)                # noqa
        elif d.eq(Ty.ty_Dict) and f.arg(1).eq(u0) and not _occurs(
                u0, f.arg(0)):
            other = f.arg(0)
            R = image_dict(S, other, False)
            mk = lambda t: Ty.ty_Dict(other, t)                # noqa
        else:
            raise Unsupported('set comprehension: unsupported constructor', e)
        # instances of the image's definition at the choice elements of S
        for w in (pick(S), pick2(S), diffw(S)):
            st.assume(z3.Select(R, mk(w)) == z3.Select(S, w))
        return [(st, VTySet(R))]

    def obj_attr(self, eng, v, name, st):
        if name == 'resolve':
            return [(st, VExtMethod(v, 'resolve'))]
        if name == 'represent_str' and '__dumper__' in st.heap.get(v.oid, {}):
            return [(st, VExtMethod(v, 'represent_str'))]
        return None

    def call_method_resolve(self, eng, args, st):
        eng.assume_note('E-RESOLVE-CORE: BaseResolver.resolve returns a '
                        'core-schema tag (all implicit resolver entries and '
                        'the defaults are tag:yaml.org,2002:*)')
        val = args[1]
        if isinstance(val, VNodeValue):
            val = eng.models.str_of(eng, val, st)
        if not isinstance(val, VStr):
            raise Unsupported('resolve() of a non-str value')
        t = resolve_tag(val.t)
        st.assume(z3.PrefixOf(z3.StringVal('tag:yaml.org,2002:'), t))
        return [(st, VStr(t))]

    def type_of(self, eng, v, st, node):
        if isinstance(v, VObj) and v.cls is not None:
            return [(st, VSelfType(v))]
        return None

    def map_of(self, eng, f, xs, st, node):
        if isinstance(xs, (VTySet, VEmptySet)):
            return [(st, VOpaque('map over a set of types'))]
        return None

    def apply(self, eng, fv, args, kwargs, st, node):
        if isinstance(fv, VHook):
            return self.call_hook(eng, fv, args, st, node)
        if isinstance(fv, VTy) and len(args) == 1:
            # calling a user class with one argument: a string-like class's
            # constructor -- arbitrary user code, any exception possible
            eng.assume_note('H-NEW: string-like constructors are '
                            'deterministic; they may raise anything')
            a = args[0]
            if isinstance(a, VNodeValue):
                a = eng.models.str_of(eng, a, st)
            if not isinstance(a, VStr):
                raise Unsupported('class call with a non-str argument', node)
            out = []
            for s2, good in eng.branch(st, hook_new_ok(fv.t, a.t)):
                if good:
                    out.append((s2, VPyObj('strlike', fv.t, a.t)))
                else:
                    # an arbitrary exception, with or without arguments
                    out.append((s2.fork(), Raise(VExc('UserException', (),
                                                      getattr(node, 'lineno',
                                                              0)))))
                    out.append((s2, Raise(VExc('UserException', (VStr(fresh(
                        'usermsg', S)),), getattr(node, 'lineno', 0)))))
            return out
        return None

    def call_hook(self, eng, hv, args, st, node):
        line = getattr(node, 'lineno', 0)
        arg = args[0]
        if not isinstance(arg, VObj):
            raise Unsupported('hook argument', node)
        ref = st.heap[arg.oid].get('yaml_node')
        n = eng.node_term(ref, st)
        if hv.name == '_yatiml_recognize':
            eng.assume_note('H-REC: _yatiml_recognize returns or raises '
                            'RecognitionError, deterministically, and leaves '
                            'the node unchanged')
            ok = hook_recog_ok(hv.t, n)
            out = []
            for s2, good in eng.branch(st, ok):
                if good:
                    out.append((s2, NONE))
                else:
                    for s3, hm in eng.branch(s2, hook_recog_hasmsg(hv.t, n)):
                        a = (VStr(hook_recog_msg(hv.t, n)),) if hm else ()
                        out.append((s3, Raise(VExc('RecognitionError', a,
                                                   line))))
            return out
        if hv.name in ('_yatiml_savorize', '_yatiml_sweeten'):
            eng.assume_note('H-SAV: %s may replace the node by any node, or '
                            'raise SeasoningError; deterministic' % hv.name)
            if st.sav is not None:
                st.sav = z3.Concat(st.sav, z3.Unit(hv.t))
            ok = hook_sav_ok(hv.t, n)
            out = []
            for s2, good in eng.branch(st, ok):
                if good:
                    new = hook_sav(hv.t, n)
                    s2.assume(so.is_N(new))
                    r = s2.new_root(new, 'h')
                    s2.heap[arg.oid]['yaml_node'] = r
                    out.append((s2, NONE))
                else:
                    # with or without a message: raise SeasoningError()
                    for s3, hm in eng.branch(s2, hook_sav_hasmsg(hv.t, n)):
                        a = (VStr(hook_sav_msg(hv.t, n)),) if hm else ()
                        out.append((s3, Raise(VExc('SeasoningError', a,
                                                   line))))
            return out
        return None

    # --------------------------------------------------------- spec builtins
    def call_specb(self, eng, name, args, st, node):
        T = lambda v: eng.models.to_term(eng, v, Ty, st)          # noqa
        SET = lambda v: self.to_set(eng, v)                        # noqa
        if name == 'document_type':
            return VTy(DOC_TYPE)
        if name == 'composed_document':
            empty = so.mkN(so.K_SCALAR, z3.StringVal(
                'tag:yaml.org,2002:null'), z3.StringVal(''), so.EMPTY_NODES,
                so.EMPTY_PAIRS, so.GEN_MARK, so.GEN_MARK)
            return VNodeVal(z3.If(COMPOSED_NONE, empty, COMPOSED))
        if name in ('yaml_int_dom', 'yaml_float_dom', 'yaml_bool_dom'):
            f = {'yaml_int_dom': yaml_int_dom, 'yaml_float_dom':
                 yaml_float_dom, 'yaml_bool_dom': yaml_bool_dom}[name]
            return VBool(f(args[0].t))
        if name == 'yaml_int':
            return VInt(yaml_int(args[0].t))
        if name == 'yaml_float':
            return VFloat(yaml_float(args[0].t))
        if name == 'yaml_bool':
            return VBool(yaml_bool(args[0].t))
        if name == 'cites':
            # the message contains the text of some source position
            # (uninterpreted; the engine asserts it for every message term
            # that is a concatenation with a str(mark) component -- no
            # quantifier, DESIGN 4.2)
            return VBool(sp_cites(args[0].t))
        if name == 'enum_name':
            return VStr(args[0].arg)
        if name == 'pystr':
            return eng.models.str_of(eng, args[0], st)
        if name == 'vis_sweeten':
            return VBool(ct_vis_sweeten(T(args[0])))
        if name == 'yielded':
            ys = [n[1] for n in st.notes if isinstance(n, tuple)
                  and n and n[0] == 'yield']
            v = ys[-1] if ys else None
            if v is None:
                raise Unsupported('nothing was yielded on this path', node)
            return v
        if name == 'is_enum_member':
            v = args[0]
            return VBool(z3.And(z3.BoolVal(isinstance(v, VPyObj) and
                                           v.what == 'enum'),
                                v.t == T(args[1]) if isinstance(v, VPyObj)
                                and v.t is not None else z3.BoolVal(False),
                                v.arg == args[2].t if isinstance(v, VPyObj)
                                and v.arg is not None else z3.BoolVal(False)))
        if name == 'is_obj_of':
            v = args[0]
            ok_ = isinstance(v, VPyObj) and v.what == args[1].t.as_string()
            t_ok = z3.BoolVal(True)
            if ok_ and v.t is not None and len(args) > 2:
                t_ok = v.t == T(args[2])
            a_ok = z3.BoolVal(True)
            if ok_ and v.arg is not None and len(args) > 3:
                a_ok = v.arg == args[3].t
            return VBool(z3.And(z3.BoolVal(ok_), t_ok, a_ok))
        if name == 'enum_has':
            return VBool(enum_has(T(args[0]), args[1].t))
        if name == 'new_ok':
            return VBool(hook_new_ok(T(args[0]), args[1].t))
        if name == 'sav_trace':
            if st.sav is None:
                raise Unsupported('sav_trace() outside a function body', node)
            return VSeq(st.sav, 'ty')
        if name == 'empty_tys':
            return VSeq(z3.Empty(so.TySeq), 'ty')
        if name == 'prefix_of':
            a, b = eng.to_seq(args[0], st), eng.to_seq(args[1], st)
            return VBool(z3.PrefixOf(a.t, b.t))
        if name == 'forall_in':
            # forall_in(S, lambda r: P(r)):  every member of S satisfies P.
            # An uninterpreted predicate of S per (closed) body; instantiated
            # at ground type terms when assumed, Skolemised when proved.
            Sset = SET(args[0])
            lam = args[1]
            if not (isinstance(lam, VFunc) and isinstance(lam.fn, tuple)):
                raise Unsupported('forall_in needs a lambda', node)
            res = eng.call_lambda(lam, [VTy(_UVAR)], st)
            if len(res) != 1 or isinstance(res[0][1], Raise):
                raise Unsupported('forall_in body forks', node)
            body = eng.truth(res[0][1], st)
            key = 'sp_all_%d' % body.get_id()
            if key not in _FORALL:
                _FORALL[key] = (z3.Function(key, so.TySet, B), body,
                                z3.Function(key + '_sk', so.TySet, Ty))
                _KEEP.append(body)
            return VBool(_FORALL[key][0](Sset))
        if name == 'tyset_empty':
            return VTySet(EMPTY_SET)
        if name == 'tyset_of':
            return VTySet(singleton(T(args[0])))
        if name == 'in_set':
            return VBool(z3.Select(SET(args[1]), T(args[0])))
        if name == 'card0':
            return VBool(card_is0(SET(args[0])))
        if name == 'card1':
            return VBool(card_is1(SET(args[0])))
        if name == 'cardmany':
            return VBool(card_many(SET(args[0])))
        if name == 'the':
            return VTy(pick(SET(args[0])))
        if name == 'set_union':
            return VTySet(set_union(SET(args[0]), SET(args[1])))
        if name == 'set_eq':
            return VBool(SET(args[0]) == SET(args[1]))
        if name == 'image_list':
            return VTySet(image(SET(args[0]), lambda t: Ty.ty_List(t)))
        if name == 'ty_is_union':
            return VBool(Ty.is_ty_Union(T(args[0])))
        if name == 'ty_is_list':
            return VBool(Ty.is_ty_List(T(args[0])))
        if name == 'ty_is_dict':
            return VBool(Ty.is_ty_Dict(T(args[0])))
        if name == 'ty_is_class':
            return VBool(Ty.is_ty_Class(T(args[0])))
        if name == 'ty_elem':
            return VTy(Ty.ty_elem(T(args[0])))
        if name == 'ty_key':
            return VTy(Ty.ty_key(T(args[0])))
        if name == 'ty_dval':
            return VTy(Ty.ty_dval(T(args[0])))
        if name == 'ty_members':
            return VSeq(Ty.ty_members(T(args[0])), 'ty')
        if name == 'ty_args':
            t = T(args[0])
            return VSeq(z3.If(
                Ty.is_ty_List(t), z3.Unit(Ty.ty_elem(t)), z3.If(
                    Ty.is_ty_Dict(t), z3.Concat(z3.Unit(Ty.ty_key(t)),
                                                z3.Unit(Ty.ty_dval(t))),
                    z3.If(Ty.is_ty_Union(t), Ty.ty_members(t),
                          ty_args(t)))), 'ty')
        if name == 'mk_list':
            return VTy(Ty.ty_List(T(args[0])))
        if name == 'mk_dict':
            return VTy(Ty.ty_Dict(T(args[0]), T(args[1])))
        simple = {'cls_name': (ct_name, VStr), 'cls_is_enum': (ct_is_enum,
                                                               VBool),
                  'cls_is_strlike': (ct_is_strlike, VBool),
                  'cls_is_abstract': (ct_is_abstract, VBool),
                  'cls_isclass': (ct_isclass, VBool),
                  'cls_own_recognize': (ct_own_recognize, VBool),
                  'cls_own_savorize': (ct_own_savorize, VBool),
                  'cls_own_sweeten': (ct_own_sweeten, VBool),
                  'cls_nparams': (ct_nparams, VInt)}
        if name in simple:
            f, W = simple[name]
            return W(f(T(args[0])))
        if name == 'cls_bases':
            return VSeq(ct_bases(T(args[0])), 'ty')
        if name in ('cls_pname', 'cls_ptype', 'cls_preq'):
            f, W = {'cls_pname': (ct_pname, VStr), 'cls_ptype': (ct_ptype,
                                                                 VTy),
                    'cls_preq': (ct_preq, VBool)}[name]
            return W(f(T(args[0]), args[1].t))
        if name == 'reg_has':
            return VBool(z3.Contains(REG_TYPES, z3.Unit(T(args[0]))))
        if name == 'reg_has_tag':
            return VBool(z3.Contains(REG_TAGS, z3.Unit(args[0].t)))
        if name == 'reg_lookup':
            i = z3.IndexOf(REG_TAGS, z3.Unit(args[0].t), 0)
            return VTy(seq_nth(REG_TYPES, i))
        if name == 'reg_types':
            return VSeq(REG_TYPES, 'ty')
        if name == 'reg_tags':
            return VSeq(REG_TAGS, 'str')
        if name == 'reg_len':
            return VInt(seq_len(REG_TYPES))
        if name == 'set_remove':
            return VTySet(z3.Store(SET(args[0]), T(args[1]),
                                   z3.BoolVal(False)))
        if name == 'image_dict_key':
            return VTySet(image_dict(SET(args[0]), T(args[1]), True))
        if name == 'image_dict_val':
            return VTySet(image_dict(SET(args[1]), T(args[0]), False))
        if name == 'wf_ty':
            eng.assume_note('CLASS-MODEL: expected types are well formed over '
                            'a closed class model (all classes used in '
                            'annotations are registered, dict keys are '
                            'string-like classes)')
            return VBool(wf_ty(T(args[0])))
        if name == 'dashed':
            return VStr(so.repl_ud(args[0].t))
        if name == 'undashed':
            return VStr(so.repl_du(args[0].t))
        if name == 'is_base_of':
            # is_base_of(base, sub): base in sub.__bases__
            return VBool(z3.Contains(ct_bases(T(args[1])),
                                     z3.Unit(T(args[0]))))
        if name == 'recog_ok':
            return VBool(hook_recog_ok(T(args[0]), eng.models.to_term(
                eng, args[1], so.YNode, st)))
        if name == 'sav_ok':
            return VBool(hook_sav_ok(T(args[0]), eng.models.to_term(
                eng, args[1], so.YNode, st)))
        if name == 'sav_result':
            return VNodeVal(hook_sav(T(args[0]), eng.models.to_term(
                eng, args[1], so.YNode, st)))
        if name == 'E':
            return VErr(self.to_err(eng, VTuple((args[0], args[1])), st))
        if name in ('err_msg', 'err_causes'):
            e = self.to_err(eng, args[0], st)
            k = 0 if name == 'err_msg' else 1
            if z3.is_app(e) and e.decl().eq(so.RErr.er_E):
                t = e.arg(k)        # accessor over constructor
            else:
                t = (so.RErr.er_msg if k == 0 else so.RErr.er_causes)(e)
            return VStr(t) if k == 0 else VSeq(t, 'err')
        return None

    def to_set(self, eng, v):
        s = self.tyset(eng, v)
        if s is None:
            raise Unsupported('set of types expected, got %s' %
                              type(v).__name__)
        return s

    def to_err(self, eng, v, st):
        if isinstance(v, VErr):
            return v.t
        if isinstance(v, VTuple) and len(v.items) == 2 and isinstance(
                v.items[0], VStr):
            c = v.items[1]
            if isinstance(c, VListC):
                cs = [self.to_err(eng, x, st) for x in c.items]
                ct = z3.Empty(so.ErrSeq) if not cs else (
                    z3.Unit(cs[0]) if len(cs) == 1 else z3.Concat(
                        *[z3.Unit(x) for x in cs]))
            elif isinstance(c, VSeq) and c.elem == 'err':
                ct = c.t
            else:
                raise Unsupported('error causes of kind %s' %
                                  type(c).__name__)
            return so.RErr.er_E(v.items[0].t, ct)
        raise Unsupported('RecError expected, got %s' % type(v).__name__)

    def to_term(self, eng, v, sort, st):
        if sort == so.TySet:
            return self.tyset(eng, v)
        if sort == so.RErr:
            try:
                return self.to_err(eng, v, st)
            except Unsupported:
                return None
        return None

    def elem_term(self, eng, v, st):
        if isinstance(v, VTuple) and len(v.items) == 2 and isinstance(
                v.items[0], VStr) and isinstance(v.items[1], (VListC, VSeq)):
            try:
                return 'err', self.to_err(eng, v, st)
            except Unsupported:
                return None
        return None


def image(s, f):
    """{f(t) for t in s} for an injective constructor f, by its membership
    predicate; instances at pick/pick2 are added as facts by the caller"""
    u = z3.Const('u!img', Ty)
    probe = f(u)
    d = probe.decl()
    if d.eq(Ty.ty_List):
        return z3.Lambda([u], z3.And(Ty.is_ty_List(u),
                                     z3.Select(s, Ty.ty_elem(u))))
    raise Unsupported('image under this constructor')


_KEEP = []


def forall_axioms(formulas):
    """instances of the forall_in predicates (DESIGN 3.1 'sets of types')"""
    apps = {}
    tys = {}
    seen = set()
    stack = list(formulas)
    while stack:
        t = stack.pop()
        i = t.get_id()
        if i in seen:
            continue
        seen.add(i)
        if z3.is_quantifier(t):
            continue
        if z3.is_app(t):
            nm = t.decl().name()
            if nm in _FORALL:
                apps[i] = t
            if t.sort() == Ty and not _occurs(_UVAR, t):
                k = t.decl().kind()
                if k == z3.Z3_OP_UNINTERPRETED or t.num_args() == 0 or \
                        k == z3.Z3_OP_SEQ_NTH or k == z3.Z3_OP_DT_CONSTRUCTOR:
                    tys[i] = t
            stack.extend(t.children())
    if not apps:
        return []
    ax = []
    sks = []
    for a in apps.values():
        pred, body, sk = _FORALL[a.decl().name()]
        S = a.arg(0)
        w = sk(S)
        sks.append(w)
        ax.append(z3.Implies(z3.Not(a), z3.And(
            z3.Select(S, w), z3.Not(z3.substitute(body, (_UVAR, w))))))
    cands = list(tys.values())[:30] + sks
    for a in apps.values():
        pred, body, sk = _FORALL[a.decl().name()]
        S = a.arg(0)
        for g in cands + [pick(S), pick2(S), diffw(S)]:
            ax.append(z3.Implies(z3.And(a, z3.Select(S, g)),
                                 z3.substitute(body, (_UVAR, g))))
    return ax


def cite_axioms(formulas):
    """sp_cites(t) for every string term t built by concatenation with a
    str(mark) component (directly or through nested concatenations)"""
    memo = {}

    def has_mark(t):
        k = t.get_id()
        if k in memo:
            return memo[k]
        r = False
        if z3.is_app(t):
            if t.decl().eq(so.markstr):
                r = True
            elif t.decl().kind() == z3.Z3_OP_SEQ_CONCAT and t.sort() == S:
                r = any(has_mark(c) for c in t.children())
        memo[k] = r
        return r
    out = []
    wraps = []
    uses = [False]
    seen = set()
    stack = list(formulas)
    while stack:
        t = stack.pop()
        i = t.get_id()
        if i in seen:
            continue
        seen.add(i)
        if z3.is_quantifier(t):
            continue
        if z3.is_app(t):
            if t.sort() == S and has_mark(t):
                out.append(sp_cites(t))
            elif t.sort() == S and t.decl().kind() == z3.Z3_OP_SEQ_CONCAT:
                # a text that contains a citing text cites
                for c in t.children():
                    if not z3.is_string_value(c):
                        wraps.append(z3.Implies(sp_cites(c), sp_cites(t)))
            elif t.decl().eq(sp_cites):
                uses[0] = True
            stack.extend(t.children())
    if uses[0]:
        out.extend(wraps)
    return out


def image_dict(s, other, key_varies):
    u = z3.Const('u!img', Ty)
    if key_varies:
        return z3.Lambda([u], z3.And(Ty.is_ty_Dict(u), Ty.ty_dval(u) == other,
                                     z3.Select(s, Ty.ty_key(u))))
    return z3.Lambda([u], z3.And(Ty.is_ty_Dict(u), Ty.ty_key(u) == other,
                                 z3.Select(s, Ty.ty_dval(u))))


def set_axioms(formulas):
    """pick/pick2 axioms instantiated at the set terms of the formulas and at
    the Ty terms used as indices of select/store on sets (DESIGN 3.1)"""
    sets = {}
    tys = {}
    seen = set()
    stack = list(formulas)
    while stack:
        t = stack.pop()
        i = t.get_id()
        if i in seen:
            continue
        seen.add(i)
        if z3.is_quantifier(t):
            if t.is_lambda() and t.sort() == so.TySet:
                sets[i] = t        # image sets {C[x] for x in S}
            continue
        if z3.is_app(t):
            srt = t.sort()
            if srt == so.TySet:
                sets[i] = t
            k = t.decl().kind()
            if k in (z3.Z3_OP_SELECT, z3.Z3_OP_STORE) and \
                    t.arg(0).sort() == so.TySet:
                ix = t.arg(1)
                tys[ix.get_id()] = ix
            stack.extend(t.children())
    axioms = []
    tlist = list(tys.values())[:24]
    for s in sets.values():
        if s.eq(EMPTY_SET):
            continue
        if z3.is_app(s) and s.decl().kind() in (z3.Z3_OP_STORE,
                                                z3.Z3_OP_CONST_ARRAY):
            # literal sets {a, b}: cardinality is decided by the array theory
            lit = True
        else:
            lit = False
        p, q = pick(s), pick2(s)
        axioms.append(z3.Implies(s != EMPTY_SET, z3.Select(s, p)))
        # extensionality witness of  s != {pick s}
        w = diffw(s)
        axioms.append(z3.Implies(
            s != singleton(p), z3.Select(s, w) != (w == p)))
        cands = ([] if lit else tlist) + [w]
        for a in cands:
            # any member other than pick witnesses "more than one"
            axioms.append(z3.Implies(
                z3.And(z3.Select(s, a), a != p),
                z3.And(z3.Select(s, p), z3.Select(s, q), p != q)))
    return axioms


def _occurs(v, t):
    stack = [t]
    while stack:
        x = stack.pop()
        if x.eq(v):
            return True
        if z3.is_app(x):
            stack.extend(x.children())
    return False


def _mentions(formulas, names):
    seen = set()
    stack = list(formulas)
    while stack:
        t = stack.pop()
        i = t.get_id()
        if i in seen:
            continue
        seen.add(i)
        if z3.is_quantifier(t):
            stack.append(t.body())
            continue
        if z3.is_app(t):
            if t.decl().name() in names:
                return True
            stack.extend(t.children())
    return False


def _has_var(t):
    stack = [t]
    seen = set()
    while stack:
        x = stack.pop()
        if x.get_id() in seen:
            continue
        seen.add(x.get_id())
        if z3.is_var(x):
            return True
        if z3.is_app(x):
            stack.extend(x.children())
    return False
