"""Effect and ownership summaries of the wiring code (load_function, dump*_
function, their __call__s, add_to_loader/add_to_dumper, Loader/Dumper.__init__,
the resolver patches): a path-sensitive abstract interpretation of the REAL
AST (re-read on every run) that records, per path,

  * every call of code outside the repository (yaml.dump, yaml.load, open,
    add_constructor, ...) with structurally comparable argument terms, and
  * every store (attribute, item, in-place list/dict mutation) together with
    the ROOT of the object written: a fresh object created in this activation,
    the instance `self`, a parameter, or something only reached by reading
    shared state (a class attribute, a module global).

These summaries are what the frame conditions of C11, the call-argument
equalities of C12, and the option plumbing of C06/C07 are stated over
(DESIGN 7.6, 7.7, 7.11, 7.12).  It is deliberately not a general verifier: the
functions it is applied to are loop-light wiring code; anything it cannot
interpret raises GlueUnsupported (the check then reports undecided)."""
import ast
import itertools

_uid = itertools.count()


class GlueUnsupported(Exception):
    pass


class V:
    fresh = False       # created in the activation under analysis

    def key(self):
        raise NotImplementedError

    def __repr__(self):
        return str(self.key())


class Const(V):
    def __init__(self, v):
        self.v = v

    def key(self):
        return ('const', repr(self.v))


class Sym(V):
    """an input of the analysis (parameter, unknown object)"""
    def __init__(self, name):
        self.name = name

    def key(self):
        return ('sym', self.name)


class Ext(V):
    """something outside the repository, by dotted name"""
    def __init__(self, dotted):
        self.dotted = dotted

    def key(self):
        return ('ext', self.dotted)


class RepoClass(V):
    def __init__(self, cls):
        self.cls = cls

    def key(self):
        return ('repoclass', self.cls.module.rel, self.cls.name)


class Func(V):
    def __init__(self, fn, closure=None, self_v=None):
        self.fn = fn
        self.closure = closure or {}
        self.self_v = self_v

    def key(self):
        return ('func', self.fn.qual)


class LocalClass(V):
    fresh = True

    def __init__(self, name, bases, attrs, methods):
        self.name = name
        self.bases = bases
        self.attrs = attrs
        self.methods = methods
        self.uid = next(_uid)
        self.written = []       # effects whose root is this class

    def key(self):
        return ('localclass', self.name, self.uid)

    def canon(self):
        """structure, independent of the identity: for relating the classes
        made by two different factory functions"""
        return ('localclass', self.name,
                tuple(canon(b) for b in self.bases),
                tuple(sorted((k, canon(v)) for k, v in self.attrs.items())))


class Inst(V):
    fresh = True

    def __init__(self, cls):
        self.cls = cls
        self.attrs = {}
        self.uid = next(_uid)

    def key(self):
        return ('inst', self.cls.key(), self.uid)


class Fresh(V):
    """a container / object created by a display or a constructor call"""
    fresh = True

    def __init__(self, kind, items=None):
        self.kind = kind
        self.items = list(items or [])
        self.uid = next(_uid)

    def key(self):
        return ('fresh', self.kind, self.uid)


class Term(V):
    """uninterpreted result: attribute read, call result, operator"""
    def __init__(self, op, *args, fresh=False):
        self.op = op
        self.args = args
        self.fresh = fresh

    def key(self):
        return ('term', self.op) + tuple(
            a.key() if isinstance(a, V) else a for a in self.args)


def canon(v):
    if isinstance(v, LocalClass):
        return v.canon()
    if isinstance(v, Inst):
        return ('inst', canon(v.cls))
    if isinstance(v, Fresh):
        return ('fresh', v.kind, tuple(canon(x) for x in v.items))
    if isinstance(v, Term):
        return ('term', v.op) + tuple(
            canon(a) if isinstance(a, V) else a for a in v.args)
    if isinstance(v, V):
        return v.key()
    if isinstance(v, (tuple, list)):
        return tuple(canon(x) for x in v)
    if isinstance(v, dict):
        return tuple(sorted((k, canon(x)) for k, x in v.items()))
    return v


def root_of(v):
    """(kind, object): where the object written lives"""
    if isinstance(v, (LocalClass, Inst, Fresh)):
        return 'fresh', v
    if isinstance(v, Term):
        if v.fresh:
            return 'fresh', v
        if v.op in ('attr', 'item', 'call', 'elem') and v.args and \
                isinstance(v.args[0], V):
            k, o = root_of(v.args[0])
            return ('via:' + k if not k.startswith('via:') else k), o
        return 'unknown', v
    if isinstance(v, Sym):
        return 'param', v
    if isinstance(v, (Ext, RepoClass)):
        return 'global', v
    return 'unknown', v


class Effect:
    def __init__(self, kind, target, detail, line):
        self.kind = kind          # call | setattr | setitem | mutate | open
        self.target = target      # V (callee for call)
        self.detail = detail
        self.line = line

    def canon(self):
        return (self.kind, canon(self.target), canon(self.detail))

    def __repr__(self):
        return '%s@%d %s %s' % (self.kind, self.line, canon(self.target),
                                canon(self.detail))


class Path:
    def __init__(self):
        self.env = {}
        self.effects = []
        self.assume = []        # (cond term, bool)
        self.heap = {}          # (object key, attr) -> value stored on this path
        self.ret = None
        self.raised = None
        self.done = False

    def fork(self):
        p = Path()
        p.env = dict(self.env)
        p.effects = list(self.effects)
        p.assume = list(self.assume)
        p.heap = dict(self.heap)
        return p


MUTATORS = {'append', 'extend', 'pop', 'remove', 'insert', 'clear', 'update',
            'add', 'setdefault', 'popitem', 'sort', 'reverse', 'discard'}
FRESH_CALLS = {'dict', 'list', 'set', 'OrderedDict', 'collections.OrderedDict',
               'tuple', 'pathlib.Path', 'Path', 're.compile', 'object'}
PURE_EXT = {'isinstance', 'issubclass', 'len', 'str', 'type', 'cast',
            'typing.cast', 'hasattr', 'getattr', 'format', 'bool', 'int',
            'enumerate', 'zip', 'map', 'iter', 'next', 'any', 'all', 'repr',
            'super'}


class Glue:
    def __init__(self, program, max_depth=6):
        self.program = program
        self.max_depth = max_depth
        self.depth = 0
        self.stack = []

    # ----------------------------------------------------------- lookup
    def lookup(self, name, path, closure, mod):
        if name in path.env:
            return path.env[name]
        if name in closure:
            return closure[name]
        if name in ('True', 'False', 'None'):
            return Const({'True': True, 'False': False, 'None': None}[name])
        if name in mod.functions:
            return Func(mod.functions[name])
        if name in mod.classes:
            return RepoClass(mod.classes[name])
        if name in mod.imports:
            dotted = mod.imports[name]
            parts = dotted.split('.')
            if parts[0] == 'yatiml' and len(parts) >= 3:
                m2 = self.program.module_by_dotted('.'.join(parts[:2]))
                if m2 is not None:
                    if parts[2] in m2.functions:
                        return Func(m2.functions[parts[2]])
                    if parts[2] in m2.classes:
                        return RepoClass(m2.classes[parts[2]])
                    return Ext(dotted)
            return Ext(dotted)
        if name in mod.assigns:
            return Term('global', mod.rel, name)
        return Ext(name)

    # ------------------------------------------------------- expressions
    def ev(self, e, path, closure, mod):
        m = getattr(self, 'e_' + type(e).__name__, None)
        if m is None:
            raise GlueUnsupported('expression %s line %d' % (
                type(e).__name__, getattr(e, 'lineno', 0)))
        return m(e, path, closure, mod)

    def e_Constant(self, e, p, c, m):
        return Const(e.value)

    def e_Name(self, e, p, c, m):
        return self.lookup(e.id, p, c, m)

    def e_Attribute(self, e, p, c, m):
        base = self.ev(e.value, p, c, m)
        k = (base.key(), e.attr)
        if k in p.heap:
            return p.heap[k]
        return self.getattr(base, e.attr, m)

    def e_Yield(self, e, p, c, m):
        if e.value is not None:
            self.ev(e.value, p, c, m)
        return Const(None)

    def getattr(self, base, name, mod):
        if isinstance(base, Inst):
            if name in base.attrs:
                return base.attrs[name]
            if name in base.cls.methods:
                return Func(base.cls.methods[name][0],
                            base.cls.methods[name][1], base)
            if name in base.cls.attrs:
                return base.cls.attrs[name]
            return Term('attr', base, name)
        if isinstance(base, LocalClass):
            if name in base.attrs:
                return base.attrs[name]
            if name in base.methods:
                return Func(base.methods[name][0], base.methods[name][1])
            return Term('attr', base, name)
        if isinstance(base, Ext):
            return Ext(base.dotted + '.' + name)
        return Term('attr', base, name)

    def e_Subscript(self, e, p, c, m):
        base = self.ev(e.value, p, c, m)
        if isinstance(e.slice, ast.Slice):
            return Term('slice', base)
        idx = self.ev(e.slice, p, c, m)
        if isinstance(base, Fresh) and isinstance(idx, Const) and isinstance(
                idx.v, int) and -len(base.items) <= idx.v < len(base.items):
            return base.items[idx.v]
        return Term('item', base, idx)

    def e_Tuple(self, e, p, c, m):
        return Fresh('tuple', [self.ev(x, p, c, m) for x in e.elts])

    def e_List(self, e, p, c, m):
        return Fresh('list', [self.ev(x, p, c, m) for x in e.elts])

    def e_Dict(self, e, p, c, m):
        return Fresh('dict', [Fresh('pair', [self.ev(k, p, c, m),
                                             self.ev(v, p, c, m)])
                              for k, v in zip(e.keys, e.values)])

    def e_Set(self, e, p, c, m):
        return Fresh('set', [self.ev(x, p, c, m) for x in e.elts])

    def e_JoinedStr(self, e, p, c, m):
        return Term('fstring')

    def e_UnaryOp(self, e, p, c, m):
        v = self.ev(e.operand, p, c, m)
        if isinstance(e.op, ast.Not):
            if isinstance(v, Const):
                return Const(not v.v)
            return Term('not', v)
        return Term('unary', type(e.op).__name__, v)

    def e_BinOp(self, e, p, c, m):
        return Term('binop', type(e.op).__name__, self.ev(e.left, p, c, m),
                    self.ev(e.right, p, c, m))

    def e_BoolOp(self, e, p, c, m):
        return Term('boolop', type(e.op).__name__,
                    *[self.ev(x, p, c, m) for x in e.values])

    def e_Compare(self, e, p, c, m):
        vs = [self.ev(e.left, p, c, m)] + [self.ev(x, p, c, m)
                                            for x in e.comparators]
        if len(vs) == 2 and all(isinstance(v, Const) for v in vs) and \
                isinstance(e.ops[0], (ast.Is, ast.Eq)):
            return Const(vs[0].v == vs[1].v)
        if len(vs) == 2 and all(isinstance(v, Const) for v in vs) and \
                isinstance(e.ops[0], (ast.IsNot, ast.NotEq)):
            return Const(vs[0].v != vs[1].v)
        return Term('compare', tuple(type(o).__name__ for o in e.ops), *vs)

    def e_IfExp(self, e, p, c, m):
        return Term('ifexp', self.ev(e.test, p, c, m),
                    self.ev(e.body, p, c, m), self.ev(e.orelse, p, c, m))

    def e_ListComp(self, e, p, c, m):
        return Term('comprehension', ast.dump(e)[:60], fresh=True)

    e_SetComp = e_GeneratorExp = e_DictComp = e_ListComp

    def e_Lambda(self, e, p, c, m):
        return Term('lambda', fresh=True)

    def e_Starred(self, e, p, c, m):
        return Term('starred', self.ev(e.value, p, c, m))

    def e_Call(self, e, p, c, m):
        fv = self.ev(e.func, p, c, m)
        args = [self.ev(a, p, c, m) for a in e.args]
        kwargs = {}
        for k in e.keywords:
            if k.arg is None:
                kwargs['**'] = self.ev(k.value, p, c, m)
            else:
                kwargs[k.arg] = self.ev(k.value, p, c, m)
        return self.call(fv, args, kwargs, p, m, e)

    # ------------------------------------------------------------- calls
    def call(self, fv, args, kwargs, path, mod, node):
        line = getattr(node, 'lineno', 0)
        if isinstance(fv, Func):
            return self.call_func(fv, args, kwargs, path, node)
        if isinstance(fv, LocalClass):
            inst = Inst(fv)
            if '__init__' in fv.methods:
                fn, clo = fv.methods['__init__']
                self.call_func(Func(fn, clo, inst), args, kwargs, path, node)
            return inst
        if isinstance(fv, RepoClass):
            path.effects.append(Effect('new', fv, (tuple(args), kwargs), line))
            return Term('new', fv, *args, fresh=True)
        # external / opaque callee
        name = fv.dotted if isinstance(fv, Ext) else None
        if isinstance(fv, Term) and fv.op == 'attr':
            recv, meth = fv.args
            if meth in MUTATORS:
                path.effects.append(Effect('mutate', recv, (meth, tuple(args)),
                                           line))
                if isinstance(recv, Fresh) and meth == 'append' and args:
                    recv.items.append(args[0])
                return Term('call', fv, *args)
            if meth == 'open':
                path.effects.append(Effect('open', recv, (tuple(args), kwargs),
                                           line))
                return Term('open', recv, *args, fresh=True)
            if meth in ('items', 'keys', 'values', 'get', 'copy', 'format',
                        'startswith', 'lower', 'replace', 'join', 'match'):
                return Term('call', fv, *args,
                            fresh=(meth == 'copy'))
        if name == 'isinstance' and len(args) == 2 and isinstance(
                args[0], Fresh) and isinstance(args[1], Ext):
            # the class of an object made by a known constructor is known
            kinds = {'pathlib.Path': 'pathlib.Path', 'Path': 'pathlib.Path',
                     'dict': 'dict', 'list': 'list', 'tuple': 'tuple',
                     'set': 'set'}
            k = kinds.get(args[0].kind)
            if k is not None:
                return Const(k == args[1].dotted)
        if name in PURE_EXT or (isinstance(fv, Term) and fv.op == 'attr'
                                and fv.args[1] in ('__new__',)):
            return Term('call', fv, *args, **{})
        if name in FRESH_CALLS:
            return Fresh(name, args)
        path.effects.append(Effect('call', fv, (tuple(args), kwargs), line))
        return Term('call', fv, *args)

    def call_func(self, fv, args, kwargs, path, node):
        fn = fv.fn
        if fn.qual in self.stack or self.depth >= self.max_depth:
            # recursion (or very deep nesting): modular treatment
            path.effects.append(Effect('callrepo', fv, (tuple(args), kwargs),
                                       getattr(node, 'lineno', 0)))
            return Term('call', Ext('repo:' + fn.qual), *args)
        params = list(fn.params)
        env = {}
        pos = list(args)
        if fv.self_v is not None:
            pos = [fv.self_v] + pos
        for pn, a in zip(params, pos):
            env[pn] = a
        if fn.vararg:
            env[fn.vararg] = Fresh('tuple', pos[len(params):])
        for k, v in kwargs.items():
            env[k] = v
        defaults = fn.node.args.defaults
        for pn, d in zip(params[len(params) - len(defaults):], defaults):
            if pn not in env:
                env[pn] = self.ev(d, Path(), {}, fn.module)
        for pn, d in zip(fn.kwonly, fn.node.args.kw_defaults):
            if pn not in env and d is not None:
                env[pn] = self.ev(d, Path(), {}, fn.module)
        saved = path.env
        n_eff = len(path.effects)
        probe = path.fork()
        probe.env = env
        self.depth += 1
        self.stack.append(fn.qual)
        try:
            pouts = self.block(fn.body(), [probe], fv.closure, fn.module, fn)
        finally:
            self.depth -= 1
            self.stack.pop()
        plive = [q for q in pouts if q.raised is None]
        if len(plive) != 1:
            if all(len(q.effects) == n_eff for q in pouts):
                # a branching helper without effects: an opaque pure call
                return Term('call', Ext('repo:' + fn.qual), *args)
            if not plive:
                path.raised = 'raise in ' + fn.qual
                return Term('never')
            # a branching helper with effects: modular treatment -- the call
            # is recorded, the helper is analysed on its own as an entry point
            path.effects.append(Effect('callrepo', fv, (tuple(args), kwargs),
                                       getattr(node, 'lineno', 0)))
            return Term('call', Ext('repo:' + fn.qual), *args)
        path.env = env
        self.depth += 1
        self.stack.append(fn.qual)
        try:
            outs = self.block(fn.body(), [path], fv.closure, fn.module, fn)
        finally:
            self.depth -= 1
            self.stack.pop()
        # calls inside wiring code: a single returning path is required
        live = [q for q in outs if q.raised is None]
        if len(live) != 1 or live[0] is not path:
            # merge by returning an opaque value but keep effects of the
            # first live path (inlined helper with branches)
            if not live:
                path.env = saved
                path.raised = 'raise'
                return Term('never')
            if len(live) > 1:
                raise GlueUnsupported('branching helper %s must be analysed '
                                      'as an entry point' % fn.qual)
        q = live[0]
        ret = q.ret if q.ret is not None else Const(None)
        q.ret = None
        q.done = False
        q.env = saved
        return ret

    # --------------------------------------------------------- statements
    def block(self, stmts, paths, closure, mod, fn):
        for s in stmts:
            new = []
            for p in paths:
                if p.done or p.raised or getattr(p, 'brk', False):
                    new.append(p)
                    continue
                new.extend(self.stmt(s, p, closure, mod, fn))
            paths = new
        return paths

    def stmt(self, s, p, c, m, fn):
        h = getattr(self, 's_' + type(s).__name__, None)
        if h is None:
            raise GlueUnsupported('statement %s line %d' % (
                type(s).__name__, s.lineno))
        return h(s, p, c, m, fn)

    def s_Pass(self, s, p, c, m, fn):
        return [p]

    def s_Continue(self, s, p, c, m, fn):
        p.brk = True
        return [p]

    s_Break = s_Continue

    def s_Expr(self, s, p, c, m, fn):
        if isinstance(s.value, ast.Constant):
            return [p]
        if isinstance(s.value, ast.Call) and isinstance(
                s.value.func, ast.Attribute) and isinstance(
                s.value.func.value, ast.Name) and \
                s.value.func.value.id == 'logger':
            return [p]
        self.ev(s.value, p, c, m)
        return [p]

    def s_Return(self, s, p, c, m, fn):
        p.ret = self.ev(s.value, p, c, m) if s.value is not None \
            else Const(None)
        p.done = True
        return [p]

    def s_Raise(self, s, p, c, m, fn):
        p.raised = 'raise@%d' % s.lineno
        return [p]

    def s_Assign(self, s, p, c, m, fn):
        v = self.ev(s.value, p, c, m)
        for t in s.targets:
            self.assign(t, v, p, c, m)
        return [p]

    def s_AnnAssign(self, s, p, c, m, fn):
        if s.value is not None:
            self.assign(s.target, self.ev(s.value, p, c, m), p, c, m)
        return [p]

    def s_AugAssign(self, s, p, c, m, fn):
        cur = self.ev(ast.parse(ast.unparse(s.target), mode='eval').body, p,
                      c, m)
        if isinstance(cur, Fresh) and cur.kind in ('set', 'list', 'dict'):
            # in-place update of a container made in this activation
            p.effects.append(Effect('mutate', cur, ('augassign',
                                                    type(s.op).__name__),
                                    s.lineno))
            self.ev(s.value, p, c, m)
            return [p]
        v = Term('binop', type(s.op).__name__, cur, self.ev(s.value, p, c, m))
        self.assign(s.target, v, p, c, m)
        return [p]

    def assign(self, t, v, p, c, m):
        line = getattr(t, 'lineno', 0)
        if isinstance(t, ast.Name):
            p.env[t.id] = v
        elif isinstance(t, (ast.Tuple, ast.List)):
            for k, x in enumerate(t.elts):
                self.assign(x, Term('item', v, Const(k)), p, c, m)
        elif isinstance(t, ast.Attribute):
            obj = self.ev(t.value, p, c, m)
            if isinstance(obj, Inst):
                obj.attrs[t.attr] = v
            elif isinstance(obj, LocalClass):
                obj.attrs[t.attr] = v
            p.heap[(obj.key(), t.attr)] = v
            p.effects.append(Effect('setattr', obj, (t.attr, v), line))
        elif isinstance(t, ast.Subscript):
            obj = self.ev(t.value, p, c, m)
            idx = self.ev(t.slice, p, c, m)
            p.effects.append(Effect('setitem', obj, (idx, v), line))
        else:
            raise GlueUnsupported('assignment target line %d' % line)

    def s_If(self, s, p, c, m, fn):
        cond = self.ev(s.test, p, c, m)
        if isinstance(cond, Const):
            return self.block(s.body if cond.v else s.orelse, [p], c, m, fn)
        a = p.fork()
        a.assume.append((cond, True))
        b = p
        b.assume.append((cond, False))
        return self.block(s.body, [a], c, m, fn) + self.block(
            s.orelse, [b], c, m, fn)

    def s_For(self, s, p, c, m, fn):
        it = self.ev(s.iter, p, c, m)
        if isinstance(it, Fresh) and it.kind in ('list', 'tuple'):
            paths = [p]
            for x in it.items:
                for q in paths:
                    q.brk = False
                    self.assign(s.target, x, q, c, m)
                paths = self.block(s.body, paths, c, m, fn)
            for q in paths:
                q.brk = False
            return paths
        # opaque iterable: the body once, for an arbitrary element
        self.assign(s.target, Term('elem', it), p, c, m)
        start = len(p.effects)
        p.effects.append(Effect('loop-begin', it, (), s.lineno))
        outs = self.block(s.body, [p], c, m, fn)
        for q in outs:
            q.brk = False
            q.effects.append(Effect('loop-end', it, (), s.lineno))
        return outs

    def s_With(self, s, p, c, m, fn):
        for item in s.items:
            v = self.ev(item.context_expr, p, c, m)
            if item.optional_vars is not None:
                self.assign(item.optional_vars, v, p, c, m)
        return self.block(s.body, [p], c, m, fn)

    def s_Try(self, s, p, c, m, fn):
        return self.block(s.body, [p], c, m, fn)

    def s_ClassDef(self, s, p, c, m, fn):
        bases = [self.ev(b, p, c, m) for b in s.bases]
        attrs, methods = {}, {}
        from .program import FunctionInfo
        clo = dict(c)
        clo.update(p.env)
        for st in s.body:
            if isinstance(st, ast.Assign) and len(st.targets) == 1 and \
                    isinstance(st.targets[0], ast.Name):
                attrs[st.targets[0].id] = self.ev(st.value, p, c, m)
            elif isinstance(st, ast.FunctionDef):
                fi = FunctionInfo(m, None, st, fn)
                methods[st.name] = (fi, clo)
        lc = LocalClass(s.name, bases, attrs, methods)
        p.env[s.name] = lc
        # methods see the class itself by name (closure)
        clo[s.name] = lc
        return [p]

    def s_FunctionDef(self, s, p, c, m, fn):
        from .program import FunctionInfo
        clo = dict(c)
        clo.update(p.env)
        p.env[s.name] = Func(FunctionInfo(m, None, s, fn), clo)
        return [p]

    # ---------------------------------------------------------- entries
    def run_func(self, fv, args=None, kwargs=None, base=None):
        """analyse a function value (e.g. a method of a local class obtained
        from a factory) as an entry point, continuing path `base`"""
        fn = fv.fn
        path = base.fork() if base is not None else Path()
        env = {}
        params = list(fn.params)
        args = list(args or [])
        if fv.self_v is not None:
            args = [fv.self_v] + args
        for k, pn in enumerate(params):
            env[pn] = args[k] if k < len(args) else Sym(pn)
        if fn.vararg:
            env[fn.vararg] = Sym('*' + fn.vararg)
        for pn in fn.kwonly:
            env[pn] = Sym(pn)
        for k, v in (kwargs or {}).items():
            env[k] = v
        path.env = env
        path.effects = []
        return self.block(fn.body(), [path], fv.closure, fn.module, fn)

    def run_toplevel(self, rel):
        """module-level statements other than defs/imports/assignments"""
        m = self.program.modules[rel]
        path = Path()

        class _F:
            module = m
            qual = rel + '::<module>'
            parent = None
        return self.block(m.toplevel_stmts, [path], {}, m, _F())

    def run(self, qual, args=None, kwargs=None, self_v=None):
        """analyse a repository function as an entry point -> paths"""
        fn = self.program.function(qual)
        path = Path()
        env = {}
        params = list(fn.params)
        args = list(args or [])
        if self_v is not None:
            args = [self_v] + args
        for k, pn in enumerate(params):
            env[pn] = args[k] if k < len(args) else Sym(pn)
        if fn.vararg:
            env[fn.vararg] = Sym('*' + fn.vararg)
        if fn.kwarg:
            env[fn.kwarg] = Sym('**' + fn.kwarg)
        for pn in fn.kwonly:
            env[pn] = Sym(pn)
        for k, v in (kwargs or {}).items():
            env[k] = v
        path.env = env
        self.stack.append(fn.qual)
        try:
            return self.block(fn.body(), [path], {}, fn.module, fn)
        finally:
            self.stack.pop()
