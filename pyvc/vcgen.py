"""Per-function verification conditions (DESIGN 2.1 steps 3-4)."""
import ast
import z3
from . import sorts as so
from .terms import conj, neg, fresh, nfield
from .values import *      # noqa
from .state import State, Unsupported
from .interp import Raise, Frame, wrap, Obligation
from .stmts import Exec, NEXT, RET, EXC

ANN_SPLIT = {
    'Optional[str]': ['None', 'str'], 'Optional[bool]': ['None', 'bool'],
    'Optional[int]': ['None', 'int'],
}


class Verifier:
    def __init__(self, engine):
        self.eng = engine
        self.functions = {}     # qual -> dict(status, paths, digest, ...)
        self.carves = {}        # qual -> [(group regex, clause source)]
        from . import state as _state
        _state.AXIOMATIZER[0] = lambda fs: self.axioms_for(
            fs, depth=self.eng.opts.get('unfold', 1))

    # ------------------------------------------------------ entry states
    def entry_states(self, fn, c):
        """-> list of (State, env) ; several when a parameter's annotation
        is an Optional / union that the model splits into kinds"""
        eng = self.eng
        variants = [[]]
        for p in fn.params + fn.kwonly:
            key = c.sorts.get(p)
            if key is None:
                if p == 'self':
                    key = 'self'
                else:
                    ann = fn.annotations.get(p)
                    txt = ast.unparse(ann) if ann is not None else None
                    if txt in ANN_SPLIT:
                        key = ANN_SPLIT[txt]
                    else:
                        key = eng.annotation_sortkey(ann)
                if key is None:
                    raise Unsupported('no sort for parameter %s of %s' % (
                        p, fn.qual))
            keys = key if isinstance(key, list) else [key]
            variants = [v + [(p, k)] for v in variants for k in keys]
        out = []
        for var in variants:
            st = State()
            env = {}
            inputs = {}
            for p, k in var:
                if k == 'self':
                    v = self.make_self(fn, c, st, inputs)
                elif k == 'None':
                    v = NONE
                elif k.startswith('obj:'):
                    v = self.make_obj(k[4:], st, inputs, p)
                else:
                    v = eng.fresh_by_key(k, 'in_' + p, st)
                    if isinstance(v, VNodeRef):
                        inputs[p] = ('node', st.roots[v.root])
                    elif hasattr(v, 't'):
                        inputs[p] = (k, v.t)
                env[p] = v
            if fn.vararg:
                k = c.sorts.get(fn.vararg)
                if k is None:
                    raise Unsupported('*args function needs sort(\'%s\', ...)'
                                      % fn.vararg)
                v = eng.fresh_by_key(k, 'in_' + fn.vararg, st)
                env[fn.vararg] = v
                if hasattr(v, 't'):
                    inputs[fn.vararg] = (k, v.t)
            st.env = env
            out.append((st, env, inputs))
        return out

    def make_self(self, fn, c, st, inputs):
        cls = fn.cls
        fields = self.eng.opts.get('fields', {}).get(
            fn.module.rel + '::' + cls.name)
        if fields is None:
            raise Unsupported('no field schema for class ' + cls.name)
        return self.make_obj_fields(cls, fields, st, inputs, 'self')

    def make_obj(self, clsqual, st, inputs, pname):
        rel, name = clsqual.split('::')
        cls = self.eng.program.modules[rel].classes[name]
        fields = self.eng.opts.get('fields', {}).get(clsqual)
        return self.make_obj_fields(cls, fields, st, inputs, pname)

    def make_obj_fields(self, cls, fields, st, inputs, pname):
        vals = {}
        for f, k in fields.items():
            if k.startswith('obj:'):
                vals[f] = self.make_obj(k[4:], st, inputs, pname + '.' + f)
                continue
            v = self.eng.fresh_by_key(k, 'in_%s_%s' % (pname, f), st)
            vals[f] = v
            if isinstance(v, VNodeRef):
                inputs[pname + '.' + f] = ('node', st.roots[v.root])
            elif hasattr(v, 't'):
                inputs[pname + '.' + f] = (k, v.t)
        oid = st.new_obj(vals)
        return VObj(oid, cls)

    # ------------------------------------------------------------ verify
    def verify(self, qual):
        eng = self.eng
        fn = eng.program.function(qual)
        c = eng.contracts.get(qual)
        if c is None:
            raise KeyError('no contract for ' + qual)
        info = {'qual': qual, 'digest': fn.digest(), 'paths': 0,
                'status': 'ok', 'reason': '', 'obligations': 0}
        self.functions[qual] = info
        if c.trusted:
            info['status'] = 'trusted'
            return info
        first = len(eng.obligations)
        eng.verifying = qual
        try:
            for st, env, inputs in self.entry_states(fn, c):
                eng.inputs = inputs
                self.verify_variant(fn, c, st, env, info)
        except Unsupported as u:
            info['status'] = 'unsupported'
            info['reason'] = str(u)
            # obligations generated so far are kept but the function is out
            # of reach: reported undischarged (exit 2), never skipped
            eng.unsupported.append((qual, str(u)))
        finally:
            eng.verifying = None
        info['obligations'] = len(eng.obligations) - first
        return info

    def verify_variant(self, fn, c, st, env, info):
        eng = self.eng
        eng.frames.append(Frame(fn, c))
        try:
            st.sav = fresh('sav0', so.TySeq)
            for r in c.requires:
                v = eng.spec_eval(r, st, env, old=st)
                st.assume(eng.truth(v, st))
            # vacuity: the precondition must be satisfiable
            chk = st.check(timeout_ms=5000)
            ob = eng.oblige(st, z3.BoolVal(True), fn.qual + '::requires-sat',
                            'cover', 'precondition satisfiable', fn.node.lineno)
            ob.note = chk
            if chk == 'unsat':
                ob.goal = z3.BoolVal(False)
                ob.pc = []
            entry = st.fork()
            eng.old_state = entry
            outs = eng.exec_block(fn.body(), st)
            for (s2, ctl, pl) in outs:
                info['paths'] += 1
                if ctl == EXC:
                    self.check_raise(fn, c, entry, env, s2, pl)
                elif ctl in (NEXT, RET):
                    self.check_return(fn, c, entry, env, s2,
                                      pl if ctl == RET else NONE)
                else:
                    raise Unsupported('loop control escaped ' + fn.qual)
        finally:
            eng.old_state = None
            eng.frames.pop()

    def carved(self, fn, group, entry, env, st):
        """known finding: the obligation is proved with exactly the finding's
        input class excluded (DESIGN 6); the exclusion is a clause over the
        entry state"""
        import re as _re
        cs = [src for (rx, src) in self.carves.get(fn.qual, [])
              if _re.search(rx, group)]
        if not cs:
            return st
        s2 = st.fork()
        for src in cs:
            e = ast.parse(src, mode='eval').body
            v = self.eng.spec_eval(e, entry, env, old=entry)
            s2.assume(self.eng.truth(v, entry))
            self.eng.assume_note('CARVED (known finding): %s proved under %s'
                                 % (group, src))
        return s2

    def check_return(self, fn, c, entry, env, st, result):
        eng = self.eng
        env2 = dict(env)
        env2['result'] = result
        post = st.fork()
        post.env = env2
        line = fn.node.lineno
        for k, e in enumerate(c.ensures):
            v = eng.spec_eval(e, post, env2, old=entry)
            g = '%s::ensures#%d' % (fn.qual, k)
            eng.oblige(self.carved(fn, g, entry, env, st), eng.truth(v, post),
                       g, 'post', ast.unparse(e)[:200], line,
                       c.clause_prop.get(('ensures', k), c.properties))
        for k, e in enumerate(c.must_fail):
            v = eng.spec_eval(e, post, env2, old=entry)
            eng.oblige(st, eng.truth(v, post), '%s::canary#%d' % (fn.qual, k),
                       'canary', ast.unparse(e)[:200], line)
        self.check_frame(fn, c, entry, env, st)
        if c.returns_place is not None:
            want = eng.eval_place(c.returns_place, post, env2)
            if not isinstance(result, VObj):
                raise Unsupported('returns_place but result is no object')
            got = st.heap[result.oid].get('yaml_node')
            eng.oblige(st, self.same_place(got, want),
                       fn.qual + '::returns_place', 'post',
                       'result wraps the declared place', line, c.properties)

    def same_place(self, a, b):
        if not isinstance(a, VNodeRef) or not isinstance(b, VNodeRef):
            return z3.BoolVal(False)
        if a.root != b.root or len(a.path) != len(b.path):
            return z3.BoolVal(False)
        cs = []
        for (s1, i1), (s2, i2) in zip(a.path, b.path):
            if s1 != s2:
                return z3.BoolVal(False)
            cs.append(i1 == i2)
        return conj(cs)

    def check_frame(self, fn, c, entry, env, st):
        """roots that are not in modifies must hold their entry value; object
        fields holding node references must not be re-bound unless declared"""
        eng = self.eng
        allowed = set()
        for m in c.modifies:
            ref = eng.eval_place(m, entry, env)
            allowed.add(ref.root)
        for r, t0 in entry.roots.items():
            if r in allowed:
                continue
            t1 = st.roots.get(r)
            if t1 is None or t1.eq(t0):
                continue
            eng.oblige(st, t1 == t0, '%s::frame:%s' % (fn.qual, r), 'post',
                       'node %s unchanged (not in modifies)' % r,
                       fn.node.lineno, c.properties)
        if not c.traces and st.sav is not None and entry.sav is not None \
                and not st.sav.eq(entry.sav):
            eng.oblige(st, st.sav == entry.sav, '%s::frame:hooks' % fn.qual,
                       'post', 'no savorize/sweeten hook is called (the '
                       'contract has no traces() clause)', fn.node.lineno,
                       c.properties)
        rebinds = set()
        for m in c.rebinds:
            obj = eng.spec_eval(m.value, entry, env)
            rebinds.add((obj.oid, m.attr))
        for oid, fields in entry.heap.items():
            for f, v in fields.items():
                if isinstance(v, VNodeRef) and (oid, f) not in rebinds:
                    v1 = st.heap[oid].get(f)
                    if not (isinstance(v1, VNodeRef) and v1.root == v.root
                            and v1.path == v.path):
                        eng.oblige(st, z3.BoolVal(False),
                                   '%s::frame-rebind:%s' % (fn.qual, f),
                                   'post', 'field %s re-bound but not in '
                                   'rebinds' % f, fn.node.lineno)

    def check_raise(self, fn, c, entry, env, st, exc):
        eng = self.eng
        for (name, when) in c.raises:
            if exc_is(exc.cls, name):
                if when is None:
                    goal = z3.BoolVal(True)
                else:
                    goal = eng.truth(eng.spec_eval(when, entry, env,
                                                   old=entry), entry)
                g = '%s::raises:%s' % (fn.qual, name)
                eng.oblige(self.carved(fn, g, entry, env, st), goal, g,
                           'post', '%s raised at line %d only when: %s' % (
                               exc.cls, exc.line,
                               ast.unparse(when) if when is not None
                               else 'True'), exc.line,
                           c.clause_prop.get(('raises', name), c.properties))
                lam = c.raises_msg.get(name)
                if lam is not None:
                    if not exc.args:
                        # raises_msg promises callers an exception WITH a
                        # message (they may read e.args[0])
                        eng.oblige(st, z3.BoolVal(False),
                                   '%s::raises_msg:%s' % (fn.qual, name),
                                   'post', '%s raised at line %d without '
                                   'arguments' % (exc.cls, exc.line),
                                   exc.line, c.properties)
                    if exc.args and isinstance(exc.args[0], VStr):
                        msg = exc.args[0]
                    else:
                        msg = VStr(fresh('nomsg', so.S))
                    v = eng.eval_clause_lambda(lam, [msg], st)
                    eng.oblige(st, eng.truth(v, st),
                               '%s::raises_msg:%s' % (fn.qual, name), 'post',
                               'message of %s raised at line %d: %s' % (
                                   exc.cls, exc.line, ast.unparse(lam)[:120]),
                               exc.line, c.properties)
                self.check_frame(fn, c, entry, env, st)
                return
        g = '%s::escape:%s' % (fn.qual, exc.cls)
        eng.oblige(self.carved(fn, g, entry, env, st), z3.BoolVal(False), g,
                   'post', '%s raised at line %d must not escape' % (
                       exc.cls, exc.line), exc.line, c.properties)

    # ------------------------------------------------- unfolding axioms
    def axioms_for(self, formulas, depth=2, exclude=(), plug_all=True):
        """instantiate the defining equations of recursive spec functions at
        the applications occurring in the formulas (and, up to `depth`, at
        the applications these instances introduce), and the proven lemmas
        at the applications matching their triggers"""
        eng = self.eng
        seen = set()
        axioms = []
        frontier = list(formulas)
        decls = eng.specs.by_decl
        all_apps = {}
        inst_seen = set()
        for level in range(depth + 1):
            apps = []
            stack = list(frontier)
            visited = set()
            while stack:
                t = stack.pop()
                tid = t.get_id()
                if tid in visited:
                    continue
                visited.add(tid)
                if z3.is_quantifier(t):
                    stack.append(t.body())
                    continue
                if z3.is_app(t):
                    nm = t.decl().name()
                    if nm in decls and tid not in seen and \
                            t.decl().eq(decls[nm].decl):
                        if not self.has_bound_var(t):
                            seen.add(tid)
                            apps.append(t)
                            all_apps.setdefault(nm[3:], []).append(t)
                    stack.extend(t.children())
            frontier = []
            if level < depth:
                for t in apps:
                    f = decls[t.decl().name()]
                    body = eng.models.spec_body(eng, f, list(t.children()))
                    ax = (t == body.t)
                    axioms.append(ax)
                    frontier.append(ax)
            if level <= eng.opts.get('lemma_levels', 1):
                for lem in eng.specs.lemmas.values():
                    if lem.name in exclude:
                        continue
                    for binding in self.match_triggers(lem, all_apps):
                        key = (lem.name,) + tuple(
                            binding[p].get_id() for p in lem.params)
                        if key in inst_seen:
                            continue
                        inst_seen.add(key)
                        inst = eng.models.spec_body(
                            eng, lem, [binding[p] for p in lem.params])
                        axioms.append(inst.t)
                        frontier.append(inst.t)
            if level == depth:
                break
        axioms.extend(self.prefix_locality(all_apps))
        for p in eng.models.plugins:
            if hasattr(p, 'axioms'):
                # plug_all: also over the terms the unfoldings introduced
                axioms.extend(p.axioms(list(formulas) + (
                    axioms if plug_all else [])))
        return axioms

    def prefix_locality(self, all_apps):
        """meta-theorem of the spec language (DESIGN appendix D): an
        index-recursive function F(.., xs, .., i) whose body reads only
        xs[i-1] and F at i-1 does not see an update of xs at position k >= i:
            F(upd(xs, k, x), i) == F(xs, i)     for i <= k"""
        from .terms import _UPD, _APP, seq_len
        out = []
        for name, apps in all_apps.items():
            f = self.eng.specs.funs.get(name)
            if f is None or not f.local:
                continue
            si, ii = f.params.index(f.local[0]), f.params.index(f.local[1])
            for t in list(apps):
                args = list(t.children())
                sq = args[si]
                hops = 0
                if sq.get_id() in _APP:
                    # F(xs ++ [x], i) == F(xs, i)   for i <= len(xs)
                    base, x = _APP[sq.get_id()]
                    a2 = list(args)
                    a2[si] = base
                    out.append(z3.Implies(args[ii] <= seq_len(base),
                                          t == f.decl(*a2)))
                while sq.get_id() in _UPD and hops < 4:
                    base, k, x = _UPD[sq.get_id()]
                    a2 = list(args)
                    a2[si] = base
                    t2 = f.decl(*a2)
                    out.append(z3.Implies(args[ii] <= k, t == t2))
                    sq = base
                    args = a2
                    t = t2
                    hops += 1
        return out

    # accessor names usable inside trigger patterns -> z3 declaration names
    PAT_FUNCS = {'py_str': 'py_s', 'py_keys': 'py_keys', 'py_vals': 'py_vals',
                 'py_items': 'py_items'}

    def match_pattern(self, pat, t, b):
        """one-way matching of a trigger argument pattern against a term:
        a parameter name, xs[i] (seq.nth) or an accessor applied to a
        pattern.  -> extended binding or None"""
        if isinstance(pat, ast.Name):
            if pat.id in b:
                if not b[pat.id].eq(t):
                    # big objects may be equal without being the same term:
                    # keep the first binding and let congruence in the
                    # solver connect them
                    if t.sort() in (so.I, so.S, so.B):
                        return None
                return b
            b = dict(b)
            b[pat.id] = t
            return b
        if not z3.is_app(t):
            return None
        if isinstance(pat, ast.Subscript):
            if t.decl().kind() != z3.Z3_OP_SEQ_NTH or t.num_args() != 2:
                return None
            b = self.match_pattern(pat.value, t.arg(0), b)
            if b is None:
                return None
            return self.match_pattern(pat.slice, t.arg(1), b)
        if isinstance(pat, ast.Call) and isinstance(pat.func, ast.Name):
            want = self.PAT_FUNCS.get(pat.func.id)
            if want is None or t.decl().name() != want or \
                    t.num_args() != len(pat.args):
                return None
            for pa, ta in zip(pat.args, t.children()):
                b = self.match_pattern(pa, ta, b)
                if b is None:
                    return None
            return b
        return None

    def match_triggers(self, lem, all_apps):
        """bindings of the lemma parameters such that every trigger pattern
        f(p1..pk) (arguments are parameter names, or patterns xs[i] /
        accessor(pattern)) matches an application"""
        results = [{}]
        for trig in lem.triggers:
            fname = trig.func.id
            new = []
            for b in results:
                for app in all_apps.get(fname, []):
                    b2 = b
                    for pa, t in zip(trig.args, app.children()):
                        b2 = self.match_pattern(pa, t, b2)
                        if b2 is None:
                            break
                    if b2 is not None:
                        new.append(b2)
            results = new
            if len(results) > 200:
                results = results[:200]
        return [b for b in results if all(p in b for p in lem.params)]

    def lemma_obligations(self):
        """each lemma is proved by induction on its `induct` parameter:
        base (n <= 0) and step (n >= 1, hypothesis at n-1)"""
        eng = self.eng
        for lem in eng.specs.lemmas.values():
            if lem.assumed:
                eng.assume_note('lemma %s is ASSUMED' % lem.name)
                continue
            try:
                params = {p: fresh('lm_' + p, s)
                          for p, s in zip(lem.params, lem.psorts)}
                goal = eng.models.spec_body(
                    eng, lem, [params[p] for p in lem.params]).t
                eng.verifying = 'lemma:' + lem.name
                eng.inputs = {}
                if lem.induct is None:
                    ob = Obligation('lemma:' + lem.name,
                                    'lemma:%s::direct' % lem.name, 'internal',
                                    'lemma (no induction)', lem.node.lineno,
                                    [], goal)
                    eng.obligations.append(ob)
                    continue
                n = params[lem.induct]
                ob = Obligation('lemma:' + lem.name,
                                'lemma:%s::base' % lem.name, 'internal',
                                'induction base', lem.node.lineno,
                                [n <= 0], goal)
                eng.obligations.append(ob)
                hyps = []
                prev = dict(params)
                prev[lem.induct] = n - 1
                hyps.append(eng.models.spec_body(
                    eng, lem, [prev[p] for p in lem.params]).t)
                for extra in lem.ih:
                    # extra hypothesis instances: dict display {param: expr}
                    st = State()
                    st.env = {p: wrap(t) for p, t in params.items()}
                    eng.frames.append(Frame(None))
                    saved = eng.mode
                    eng.mode = 'spec'
                    try:
                        inst = dict(prev)
                        for k, v in zip(extra.keys, extra.values):
                            inst[k.value] = eng.eval1(v, st).t
                    finally:
                        eng.mode = saved
                        eng.frames.pop()
                    hyps.append(eng.models.spec_body(
                        eng, lem, [inst[p] for p in lem.params]).t)
                ob = Obligation('lemma:' + lem.name,
                                'lemma:%s::step' % lem.name, 'internal',
                                'induction step', lem.node.lineno,
                                [n >= 1] + hyps, goal)
                eng.obligations.append(ob)
            finally:
                eng.verifying = None

    def has_bound_var(self, t):
        stack = [t]
        seen = set()
        while stack:
            x = stack.pop()
            if x.get_id() in seen:
                continue
            seen.add(x.get_id())
            if z3.is_var(x):
                return True
            if z3.is_app(x):
                stack.extend(x.children())
        return False
