"""Symbolic state: locals, node roots (values with places), heap of records,
path condition, ghost trace."""
import z3
from . import sorts as so
from .terms import conj, neg, fresh, nfield, pfield, seq_nth, seq_update, \
    with_field, seq_len
from .values import VNodeRef


class Unsupported(Exception):
    def __init__(self, what, node=None):
        self.what = what
        self.lineno = getattr(node, 'lineno', 0)
        super().__init__('%s (line %s)' % (what, self.lineno))


class Infeasible(Exception):
    pass


_ENTAIL_CACHE = {}


def cli_check(formulas, timeout_ms):
    """sat/unsat/unknown by a z3 process under a hard wall-clock limit: the
    in-process solver does not honour its timeout on some array/lambda
    queries and cannot be interrupted"""
    import os
    import subprocess
    import tempfile
    sv = z3.Solver()
    for f in formulas:
        sv.add(f)
    text = sv.to_smt2()
    d = os.path.join(os.path.dirname(os.path.dirname(
        os.path.abspath(__file__))), '.work')
    os.makedirs(d, exist_ok=True)
    fd, path = tempfile.mkstemp(suffix='.smt2', dir=d)
    try:
        with os.fdopen(fd, 'w') as f:
            f.write(text)
        secs = max(1, int(timeout_ms / 1000.0 + 0.999))
        try:
            p = subprocess.run(['z3-new', '-t:%d' % timeout_ms, path],
                               stdout=subprocess.PIPE,
                               stderr=subprocess.DEVNULL, text=True,
                               timeout=secs + 1.5)
            out = p.stdout.strip().split('\n', 1)[0].strip()
        except subprocess.TimeoutExpired:
            out = 'unknown'
    finally:
        try:
            os.unlink(path)
        except OSError:
            pass
    if os.environ.get('VERIF_DEBUG_CHECK') and out not in ('sat', 'unsat'):
        import shutil
        import sys
        print('cli_check:', repr(out[:200]), file=sys.stderr)
        with open(os.path.join(d, 'debug_check.smt2'), 'w') as f:
            f.write(text)
    return out if out in ('sat', 'unsat') else 'unknown'
AXIOMATIZER = [None]
STATS = {'entail_calls': 0, 'entail_time': 0.0}


class State:
    def __init__(self):
        self.env = {}
        self.roots = {}         # root id -> YNode term
        self.heap = {}          # oid -> dict field -> V
        self.pc = []            # list of Bool terms
        self.trace = []         # ghost events (python list of tuples)
        self.moved = set()      # roots whose value was copied into a container
        self.notes = []
        self.stale = frozenset()   # roots detached by a callee: read-only
        self.next_oid = [0]
        self.calls = []         # recorded external calls (C12, C06, C11)
        self.isn = set()
        self.sav = None         # Seq[Ty]: classes whose savorize/sweeten hook ran

    def fork(self):
        s = State.__new__(State)
        s.env = dict(self.env)
        s.roots = dict(self.roots)
        s.heap = {k: dict(v) for k, v in self.heap.items()}
        s.pc = list(self.pc)
        s.trace = list(self.trace)
        s.moved = set(self.moved)
        s.notes = list(self.notes)
        s.next_oid = self.next_oid
        s.calls = list(self.calls)
        s.isn = set(self.isn)
        s.sav = self.sav
        s.stale = self.stale
        return s

    def assume(self, cond):
        if z3.is_true(cond):
            return self
        if z3.is_and(cond):
            # one conjunct per fact: better slicing of hypotheses
            for c in cond.children():
                self.assume(c)
            return self
        self.pc.append(cond)
        return self

    def new_root(self, term, prefix='r'):
        rid = '%s%d' % (prefix, self.next_oid[0])
        self.next_oid[0] += 1
        self.roots[rid] = term
        return VNodeRef(rid)

    def new_obj(self, fields):
        oid = 'o%d' % self.next_oid[0]
        self.next_oid[0] += 1
        self.heap[oid] = dict(fields)
        return oid

    # --- places
    def deref(self, ref):
        t = self.roots[ref.root]
        for step, idx in ref.path:
            if step == 'item':
                t = seq_nth(nfield(t, 'items'), idx)
            elif step == 'pk':
                t = pfield(seq_nth(nfield(t, 'pairs'), idx), 'k')
            elif step == 'pv':
                t = pfield(seq_nth(nfield(t, 'pairs'), idx), 'v')
            else:
                raise AssertionError(step)
            # children of real nodes are real nodes (never the base
            # constructor that only exists for well-foundedness)
            if not z3.is_app_of(t, z3.Z3_OP_DT_CONSTRUCTOR):
                k = t.get_id()
                if k not in self.isn:
                    self.isn.add(k)
                    self.pc.append(so.is_N(t))
        return t

    def write(self, ref, new):
        if ref.root in self.stale:
            raise Unsupported('store through a reference into a node that a '
                              'callee has restructured since (detached '
                              'place)')
        def rebuild(t, path):
            if not path:
                return new
            (step, idx), rest = path[0], path[1:]
            if step == 'item':
                items = nfield(t, 'items')
                nc = rebuild(seq_nth(items, idx), rest)
                return with_field(t, 'items', seq_update(items, idx, nc))
            pairs = nfield(t, 'pairs')
            p = seq_nth(pairs, idx)
            if step == 'pk':
                np_ = so.mkP(rebuild(pfield(p, 'k'), rest), pfield(p, 'v'))
            else:
                np_ = so.mkP(pfield(p, 'k'), rebuild(pfield(p, 'v'), rest))
            return with_field(t, 'pairs', seq_update(pairs, idx, np_))
        self.roots[ref.root] = rebuild(self.roots[ref.root], ref.path)

    # --- solver access on the path condition
    def check(self, extra=None, timeout_ms=2000, axioms=True):
        """sat / unsat / unknown of pc (and extra)"""
        import time
        fs = list(self.pc) + ([extra] if extra is not None else [])
        key = (axioms,) + tuple(sorted(f.get_id() for f in fs))
        if key in _ENTAIL_CACHE:
            return _ENTAIL_CACHE[key]
        allf = list(fs)
        if AXIOMATIZER[0] is not None and axioms:
            allf.extend(AXIOMATIZER[0](fs))
        t0 = time.time()
        r = cli_check(allf, timeout_ms)
        STATS['entail_calls'] += 1
        STATS['entail_time'] += time.time() - t0
        res = str(r)
        if res != 'unknown' or timeout_ms >= 10000:
            _ENTAIL_CACHE[key] = res
        _KEEP.append(fs)
        return res

    def entails(self, cond):
        if z3.is_true(cond):
            return True
        if z3.is_false(cond):
            return False
        r = self.check(neg(cond))
        if r == 'unknown':
            # a busy machine must not flip a decision of the symbolic
            # execution: one retry with a 5x budget
            r = self.check(neg(cond), timeout_ms=10000)
        return r == 'unsat'

    def feasible(self):
        """path pruning: first without the spec unfoldings (cheap; an unsat
        here is definitive), with them only if that was inconclusive"""
        if self.check(axioms=False, timeout_ms=300) == 'unsat':
            return False
        return self.check(timeout_ms=600) != 'unsat'


_KEEP = []
