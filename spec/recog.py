"""Recognition, written from the documented rules (DESIGN appendix A):
built-ins by exact YAML tag; Path on str scalars; unions = union of member
matches with bool_union_fix collapsed into bool; lists and dicts element-wise;
enums on str/bool scalars; string-likes on str scalars; plain classes by
presence and recognisability of their required constructor parameters (exact
name first, then dashed); custom recognisers by their hook; class hierarchies
by the most-derived registered matches, disambiguated by an explicit tag.

rec(n, t) is the set of types node n is recognised as when t is expected."""
from pyvc.specrt import *      # noqa

YAML_PREFIX = 'tag:yaml.org,2002'


@spec
def rec(n: 'YNode', t: 'Ty') -> 'Set[Ty]':
    if is_scalar_type(t):
        return (tyset_of(t) if n.kind == SCALAR and n.tag == scalar_tag(t)
                else tyset_empty())
    if t == T_PATH:
        return (tyset_of(T_PATH) if n.kind == SCALAR and n.tag == STR_TAG
                else tyset_empty())
    if ty_is_union(t):
        return fixbool(rec_union(n, ty_members(t), len(ty_members(t))))
    if ty_is_list(t):
        return rec_list(n, t)
    if ty_is_dict(t):
        return rec_dict(n, t)
    if reg_has(t):
        return rec_classes(n, t)
    if t == T_ANY:
        return tyset_of(T_ANY)
    return tyset_empty()


def fixbool(s: 'Set[Ty]') -> 'Set[Ty]':
    return (set_remove(s, T_BOOLFIX)
            if in_set(T_BOOL, s) and in_set(T_BOOLFIX, s) else s)


@spec
def rec_union(n: 'YNode', ts: 'Seq[Ty]', i: int) -> 'Set[Ty]':
    """union of the matches of the first i members"""
    if i <= 0:
        return tyset_empty()
    return set_union(rec_union(n, ts, i - 1), rec(n, ts[i - 1]))


# ---- lists: the first item that is not recognised as exactly one type
# decides (none: the list type itself)

@spec
def first_bad(items: 'Seq[YNode]', et: 'Ty', i: int) -> int:
    if i <= 0:
        return -1
    if first_bad(items, et, i - 1) != -1:
        return first_bad(items, et, i - 1)
    return -1 if card1(rec(items[i - 1], et)) else i - 1


def rec_list(n: 'YNode', t: 'Ty') -> 'Set[Ty]':
    if n.kind != SEQ:
        return tyset_empty()
    if first_bad(n.items, ty_elem(t), len(n.items)) == -1:
        return tyset_of(t)
    if card0(rec(n.items[first_bad(n.items, ty_elem(t), len(n.items))],
                 ty_elem(t))):
        return tyset_empty()
    return image_list(rec(n.items[first_bad(
        n.items, ty_elem(t), len(n.items))], ty_elem(t)))


# ---- dicts: pairs in order, key before value

def pair_good(p: 'YPair', kt: 'Ty', vt: 'Ty') -> bool:
    return card1(rec(p.k, kt)) and card1(rec(p.v, vt))


@spec
def first_bad_pair(ps: 'Seq[YPair]', kt: 'Ty', vt: 'Ty', i: int) -> int:
    if i <= 0:
        return -1
    if first_bad_pair(ps, kt, vt, i - 1) != -1:
        return first_bad_pair(ps, kt, vt, i - 1)
    return -1 if pair_good(ps[i - 1], kt, vt) else i - 1


def rec_dict(n: 'YNode', t: 'Ty') -> 'Set[Ty]':
    if n.kind != MAP:
        return tyset_empty()
    if first_bad_pair(n.pairs, ty_key(t), ty_dval(t), len(n.pairs)) == -1:
        return tyset_of(t)
    return rec_bad_pair(n.pairs[first_bad_pair(
        n.pairs, ty_key(t), ty_dval(t), len(n.pairs))], ty_key(t), ty_dval(t))


def rec_bad_pair(p: 'YPair', kt: 'Ty', vt: 'Ty') -> 'Set[Ty]':
    if card0(rec(p.k, kt)):
        return tyset_empty()
    if cardmany(rec(p.k, kt)):
        return image_dict_key(rec(p.k, kt), vt)
    if card0(rec(p.v, vt)):
        return tyset_empty()
    return image_dict_val(kt, rec(p.v, vt))


# ---- one user class, without its subclasses

def rec_param(n: 'YNode', name: str, t: 'Ty', req: bool) -> bool:
    """parameter `name` of type t is acceptably present/absent in mapping n"""
    if has(n, name):
        return (cnt(n.pairs, name, len(n.pairs)) == 1
                and not card0(rec(n.pairs[at(n, name)].v, t)))
    if has(n, dashed(name)):
        return (cnt(n.pairs, dashed(name), len(n.pairs)) == 1
                and not card0(rec(n.pairs[at(n, dashed(name))].v, t)))
    return not req


@spec
def params_ok(n: 'YNode', c: 'Ty', i: int) -> bool:
    if i <= 0:
        return True
    return params_ok(n, c, i - 1) and rec_param(
        n, cls_pname(c, i - 1), cls_ptype(c, i - 1), cls_preq(c, i - 1))


def matches1(n: 'YNode', c: 'Ty') -> bool:
    if cls_own_recognize(c):
        return recog_ok(c, n)
    if cls_is_enum(c):
        return n.kind == SCALAR and (n.tag == STR_TAG or n.tag == BOOL_TAG)
    if cls_is_strlike(c):
        return n.kind == SCALAR and n.tag == STR_TAG
    return n.kind == MAP and params_ok(n, c, cls_nparams(c))


# ---- a class with its registered subclasses: most-derived matches,
# disambiguation / rejection by an explicit tag

@spec
def sub_union(n: 'YNode', c: 'Ty', i: int) -> 'Set[Ty]':
    """matches found below the registered direct subclasses of c among the
    first i registered classes"""
    if i <= 0:
        return tyset_empty()
    return set_union(sub_union(n, c, i - 1),
                     rec_hier(n, reg_types()[i - 1])
                     if is_base_of(c, reg_types()[i - 1]) else tyset_empty())


@spec
def rec_hier(n: 'YNode', c: 'Ty') -> 'Set[Ty]':
    return tag_filter(n, own_or_subs(n, c))


def own_or_subs(n: 'YNode', c: 'Ty') -> 'Set[Ty]':
    if not card0(sub_union(n, c, reg_len())):
        return sub_union(n, c, reg_len())
    if cls_is_abstract(c):
        return tyset_empty()
    return tyset_of(c) if matches1(n, c) else tyset_empty()


def tag_filter(n: 'YNode', s: 'Set[Ty]') -> 'Set[Ty]':
    if card0(s):
        return s
    if cardmany(s):
        return (tyset_of(reg_lookup(n.tag))
                if reg_has_tag(n.tag) and in_set(reg_lookup(n.tag), s) else s)
    if startswith(n.tag, YAML_PREFIX):
        return s
    if reg_has_tag(n.tag) and in_set(reg_lookup(n.tag), s):
        return s
    return tyset_empty()


def rec_classes(n: 'YNode', c: 'Ty') -> 'Set[Ty]':
    return rec_hier(n, c)


# ---- lemmas about the first failing element (proved by induction)

@lemma(induct='n', triggers=['first_bad(items, et, i)',
                             'first_bad(items, et, n)'])
def first_bad_first(items: 'Seq[YNode]', et: 'Ty', i: int, n: int) -> bool:
    return implies(0 <= i and i < n and n <= len(items)
                   and first_bad(items, et, i) == -1
                   and not card1(rec(items[i], et)),
                   first_bad(items, et, n) == i)


@lemma(induct='n', triggers=['first_bad_pair(ps, kt, vt, i)',
                             'first_bad_pair(ps, kt, vt, n)'])
def first_bad_pair_first(ps: 'Seq[YPair]', kt: 'Ty', vt: 'Ty', i: int,
                         n: int) -> bool:
    return implies(0 <= i and i < n and n <= len(ps)
                   and first_bad_pair(ps, kt, vt, i) == -1
                   and not pair_good(ps[i], kt, vt),
                   first_bad_pair(ps, kt, vt, n) == i)


@lemma(induct='n', triggers=['params_ok(nd, c, i)', 'params_ok(nd, c, n)'])
def params_ok_prefix(nd: 'YNode', c: 'Ty', i: int, n: int) -> bool:
    """all parameters acceptable implies every prefix acceptable"""
    return implies(0 <= i and i <= n and params_ok(nd, c, n),
                   params_ok(nd, c, i))


@lemma(induct='n', triggers=['params_ok(nd, c, i)', 'params_ok(nd, c, n)'])
def params_ok_bad(nd: 'YNode', c: 'Ty', i: int, n: int) -> bool:
    """one unacceptable parameter makes the whole parameter list fail"""
    return implies(0 <= i and i < n and not rec_param(
        nd, cls_pname(c, i), cls_ptype(c, i), cls_preq(c, i)),
        not params_ok(nd, c, n))


# ---- what every recognised type says about the node (C01, C04)

def shape_ok(n: 'YNode', r: 'Ty') -> bool:
    """a type r that node n was recognised as agrees with the node's kind and
    tag: built-ins by exact tag, lists are sequences, dicts are mappings,
    Path a str scalar, enums str/bool scalars, string-likes str scalars,
    auto-recognised classes mappings"""
    if is_scalar_type(r):
        return n.kind == SCALAR and n.tag == scalar_tag(r)
    if r == T_PATH:
        return n.kind == SCALAR and n.tag == STR_TAG
    if r == T_ANY:
        return True
    if ty_is_list(r):
        return n.kind == SEQ
    if ty_is_dict(r):
        return n.kind == MAP
    if ty_is_union(r):
        return False
    if not reg_has(r):
        return False
    if cls_own_recognize(r):
        return True
    if cls_is_enum(r):
        return n.kind == SCALAR and (n.tag == STR_TAG or n.tag == BOOL_TAG)
    if cls_is_strlike(r):
        return n.kind == SCALAR and n.tag == STR_TAG
    return n.kind == MAP


def concrete_ok(r: 'Ty') -> bool:
    """a recognised type is a built-in/generic type or a REGISTERED,
    NON-ABSTRACT class (C03: abstract classes are never instantiated,
    unregistered classes never considered)"""
    if (is_scalar_type(r) or r == T_PATH or r == T_ANY or ty_is_list(r)
            or ty_is_dict(r)):
        return True
    return reg_has(r) and not cls_is_abstract(r)


# ---- C13: adding bool_union_fix to a Union that contains bool changes
# nothing.  S is the union of the matches of the other members; it contains
# the matches of bool.

@lemma()
def boolfix_neutral(n: 'YNode', s: 'Set[Ty]') -> bool:
    return implies(
        forall_in(rec(n, T_BOOL), lambda r: in_set(r, s)),
        fixbool(set_union(s, rec(n, T_BOOLFIX))) == fixbool(s))
