"""Spec functions for Dumper.emit_json (C07), written from RFC 8259 at token
level: a JSON text is the token sequence of a value; array = [ items joined
by , ]; object = { key : value joined by , }.  sep_tokens/next_state describe
the separator a value needs in each container position."""
from pyvc.specrt import *      # noqa

STR_TAG_J = 'tag:yaml.org,2002:str'
NULL_TAG_J = 'tag:yaml.org,2002:null'
BOOL_TAG_J = 'tag:yaml.org,2002:bool'
TS_TAG_J = 'tag:yaml.org,2002:timestamp'


def sep_tokens(top: int) -> 'Seq[str]':
    """the separator token written before a value that arrives while the
    innermost open container is in state top"""
    if top == JS_SEQUENCE or top == JS_MAPPING_KEY:
        return [',']
    if top == JS_MAPPING_VALUE:
        return [':']
    return empty_strs()


def next_state(top: int) -> int:
    """state of the innermost container after one more value in it"""
    if top == JS_SEQUENCE_FIRST:
        return JS_SEQUENCE
    if top == JS_MAPPING_KEY_FIRST or top == JS_MAPPING_KEY:
        return JS_MAPPING_VALUE
    if top == JS_MAPPING_VALUE:
        return JS_MAPPING_KEY
    return top


def scalar_literal(ev: 'Event', allow_unicode: bool) -> str:
    """the JSON literal of a scalar event (projection of the scalar)"""
    if ev.tag == STR_TAG_J or ev.tag == TS_TAG_J:
        return jsonstr(ev.value, not allow_unicode)
    if ev.tag == NULL_TAG_J:
        return 'null'
    if ev.tag == BOOL_TAG_J:
        return lower(ev.value)
    return ev.value


def is_value_event(ev: 'Event') -> bool:
    return (ev.kind == EK_SCALAR or ev.kind == EK_SEQ_START
            or ev.kind == EK_MAP_START)


def is_end_event(ev: 'Event') -> bool:
    return ev.kind == EK_SEQ_END or ev.kind == EK_MAP_END
