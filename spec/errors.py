"""Spec functions about recognition errors (C17): an error tree cites a
position when every one of its leaves (the messages format_rec_error prints)
contains the text of some source mark."""
from pyvc.specrt import *      # noqa


@spec
def leafcite(e: 'RErr') -> bool:
    if len(err_causes(e)) == 0:
        return cites(err_msg(e))
    return leafcite_all(err_causes(e), len(err_causes(e)))


@spec(local=('es', 'i'))
def leafcite_all(es: 'Seq[RErr]', i: int) -> bool:
    if i <= 0:
        return True
    return leafcite_all(es, i - 1) and leafcite(es[i - 1])
