"""Spec functions for the structural seasoning transforms (C15)."""
from pyvc.specrt import *      # noqa


@spec(local=('ps1', 'i'))
def keys_ud(ps0: 'Seq[YPair]', ps1: 'Seq[YPair]', i: int) -> bool:
    """the first i pairs of ps1 are those of ps0 with '_' replaced by '-' in
    the key text; everything else (tags, marks, values) untouched"""
    if i <= 0:
        return True
    return (keys_ud(ps0, ps1, i - 1)
            and ps1[i - 1].k == with_val(ps0[i - 1].k,
                                         dashed(ps0[i - 1].k.val))
            and ps1[i - 1].v == ps0[i - 1].v)


@spec(local=('ps1', 'i'))
def keys_du(ps0: 'Seq[YPair]', ps1: 'Seq[YPair]', i: int) -> bool:
    if i <= 0:
        return True
    return (keys_du(ps0, ps1, i - 1)
            and ps1[i - 1].k == with_val(ps0[i - 1].k,
                                         undashed(ps0[i - 1].k.val))
            and ps1[i - 1].v == ps0[i - 1].v)


@spec
def scalar_keys(ps: 'Seq[YPair]', i: int) -> bool:
    """the keys of the first i pairs are scalars"""
    if i <= 0:
        return True
    return scalar_keys(ps, i - 1) and ps[i - 1].k.kind == SCALAR


@lemma(induct='n', triggers=['scalar_keys(ps, n)', 'scalar_keys(ps, i)'])
def scalar_keys_member(ps: 'Seq[YPair]', i: int, n: int) -> bool:
    return implies(0 <= i and i < n and scalar_keys(ps, n),
                   ps[i].k.kind == SCALAR)


# ---- map_attribute_to_index (C15): {k1: v1, ...} -> {k1: v1', ...} where a
# mapping value gets the pair (key_attribute: k) appended and, if a value
# attribute is named, a non-mapping value v becomes {value_attribute: v,
# key_attribute: k}

def str_scalar(s: str, sm: int, em: int) -> 'YNode':
    return N(SCALAR, STR_TAG, s, empty_nodes(), empty_pairs(), sm, em)


def m2i_key_pair(p: 'YPair', ka: str) -> 'YPair':
    """(key_attribute: copy of the key node), positioned at the key"""
    return P(str_scalar(ka, p.k.smark, p.k.emark), p.k)


def m2i_val(p: 'YPair', ka: str, va: 'PV') -> 'YNode':
    if p.v.kind == MAP:
        return with_pairs(p.v, p.v.pairs + [m2i_key_pair(p, ka)])
    if pv_is_none(va):
        return p.v
    return N(MAP, MAP_TAG, '', empty_nodes(),
             [P(str_scalar(pv_str(va), p.v.smark, p.v.emark), p.v),
              m2i_key_pair(p, ka)], p.v.smark, p.v.emark)


@spec(local=('ps', 'i'))
def m2i_pairs(ps: 'Seq[YPair]', ka: str, va: 'PV', i: int) -> 'Seq[YPair]':
    """the new value list after the first i entries"""
    if i <= 0:
        return empty_pairs()
    return m2i_pairs(ps, ka, va, i - 1) + [
        P(ps[i - 1].k, m2i_val(ps[i - 1], ka, va))]


def m2i_inplace(p: 'YPair', ka: str) -> 'YPair':
    """what the loop leaves in the OLD list while it runs: mapping values are
    extended in place, everything else is untouched"""
    if p.v.kind == MAP:
        return P(p.k, with_pairs(p.v, p.v.pairs + [m2i_key_pair(p, ka)]))
    return p


@spec(local=('ps', 'i'))
def m2i_mid(ps: 'Seq[YPair]', ka: str, i: int) -> 'Seq[YPair]':
    if i <= 0:
        return empty_pairs()
    return m2i_mid(ps, ka, i - 1) + [m2i_inplace(ps[i - 1], ka)]


@lemma(induct='n', triggers=['m2i_mid(ps, ka, n)'])
def m2i_mid_len(ps: 'Seq[YPair]', ka: str, n: int) -> bool:
    return implies(0 <= n, len(m2i_mid(ps, ka, n)) == n)


@lemma(induct='n', triggers=['m2i_pairs(ps, ka, va, n)'])
def m2i_pairs_len(ps: 'Seq[YPair]', ka: str, va: 'PV', n: int) -> bool:
    return implies(0 <= n, len(m2i_pairs(ps, ka, va, n)) == n)


# ---- index_attribute_to_map (C15), the reverse: each mapping value loses its
# key_attribute pairs; a value left with the single pair (value_attribute: x)
# is replaced by x

@spec(local=('ps', 'i'))
def without_key(ps: 'Seq[YPair]', ka: str, i: int) -> 'Seq[YPair]':
    """the first i pairs without those keyed ka"""
    if i <= 0:
        return empty_pairs()
    if keyeq(ps[i - 1], ka):
        return without_key(ps, ka, i - 1)
    return without_key(ps, ka, i - 1) + [ps[i - 1]]


def stripped(v: 'YNode', ka: str) -> 'YNode':
    return with_pairs(v, without_key(v.pairs, ka, len(v.pairs)))


def i2m_val(p: 'YPair', ka: str, va: 'PV') -> 'YNode':
    if (len(stripped(p.v, ka).pairs) == 1 and pv_is_str(va)
            and keyeq(stripped(p.v, ka).pairs[0], pv_str(va))):
        return stripped(p.v, ka).pairs[0].v
    return stripped(p.v, ka)


@spec(local=('ps', 'i'))
def i2m_pairs(ps: 'Seq[YPair]', ka: str, va: 'PV', i: int) -> 'Seq[YPair]':
    if i <= 0:
        return empty_pairs()
    return i2m_pairs(ps, ka, va, i - 1) + [
        P(ps[i - 1].k, i2m_val(ps[i - 1], ka, va))]


@spec(local=('ps', 'i'))
def i2m_mid(ps: 'Seq[YPair]', ka: str, i: int) -> 'Seq[YPair]':
    """the old list while the loop runs: the first i values stripped in
    place"""
    if i <= 0:
        return empty_pairs()
    return i2m_mid(ps, ka, i - 1) + [P(ps[i - 1].k, stripped(ps[i - 1].v, ka))]


@spec
def all_maps(ps: 'Seq[YPair]', i: int) -> bool:
    """the first i values are mappings"""
    if i <= 0:
        return True
    return all_maps(ps, i - 1) and ps[i - 1].v.kind == MAP


@lemma(induct='n', triggers=['all_maps(ps, n)', 'all_maps(ps, i)'])
def all_maps_member(ps: 'Seq[YPair]', i: int, n: int) -> bool:
    return implies(0 <= i and i < n and all_maps(ps, n),
                   ps[i].v.kind == MAP and all_maps(ps, i))


@lemma(induct='n', triggers=['all_maps(ps, n)', 'all_maps(ps, i)'])
def all_maps_bad(ps: 'Seq[YPair]', i: int, n: int) -> bool:
    return implies(0 <= i and i < n and ps[i].v.kind != MAP,
                   not all_maps(ps, n))


@lemma(induct='n', triggers=['i2m_mid(ps, ka, n)'])
def i2m_mid_len(ps: 'Seq[YPair]', ka: str, n: int) -> bool:
    return implies(0 <= n, len(i2m_mid(ps, ka, n)) == n)


@lemma(induct='n', triggers=['i2m_pairs(ps, ka, va, n)'])
def i2m_pairs_len(ps: 'Seq[YPair]', ka: str, va: 'PV', n: int) -> bool:
    return implies(0 <= n, len(i2m_pairs(ps, ka, va, n)) == n)


# ---- seq_attribute_to_map (C15): [ {ka: k1, ...rest1}, ... ] ->
# {k1: {...rest1}, ...}; an item left with the single pair (value_attribute:
# x) becomes x (the short form)

def with_items(n: 'YNode', xs: 'Seq[YNode]') -> 'YNode':
    return N(n.kind, n.tag, n.val, xs, n.pairs, n.smark, n.emark)


def removed(v: 'YNode', a: str) -> 'YNode':
    """the mapping v without its first pair keyed a (ordered-dict removal)"""
    return with_pairs(v, v.pairs[:at(v, a)] + v.pairs[at(v, a) + 1:])


def s2m_item_ok(it: 'YNode', ka: str) -> bool:
    """a mapping with exactly one key attribute, whose value is a string"""
    return (it.kind == MAP and cnt(it.pairs, ka, len(it.pairs)) == 1
            and first_value(it, ka).kind == SCALAR
            and first_value(it, ka).tag == STR_TAG)


@spec
def s2m_valid(xs: 'Seq[YNode]', ka: str, i: int) -> bool:
    if i <= 0:
        return True
    return s2m_valid(xs, ka, i - 1) and s2m_item_ok(xs[i - 1], ka)


@spec
def s2m_seen(xs: 'Seq[YNode]', ka: str, i: int) -> 'Set[str]':
    """the key strings of the first i items"""
    if i <= 0:
        return strs_none()
    return strs_add(s2m_seen(xs, ka, i - 1), first_value(xs[i - 1], ka).val)


@spec
def s2m_distinct(xs: 'Seq[YNode]', ka: str, i: int) -> bool:
    """the key strings of the first i items are pairwise different"""
    if i <= 0:
        return True
    return (s2m_distinct(xs, ka, i - 1)
            and not in_strs(first_value(xs[i - 1], ka).val,
                            s2m_seen(xs, ka, i - 1)))


def s2m_val(it: 'YNode', ka: str, va: 'PV') -> 'YNode':
    if (pv_is_str(va) and len(removed(it, ka).pairs) == 1
            and has(removed(it, ka), pv_str(va))):
        return first_value(removed(it, ka), pv_str(va))
    return removed(it, ka)


@spec(local=('xs', 'i'))
def s2m_pairs(xs: 'Seq[YNode]', ka: str, va: 'PV', i: int) -> 'Seq[YPair]':
    if i <= 0:
        return empty_pairs()
    return s2m_pairs(xs, ka, va, i - 1) + [
        P(first_value(xs[i - 1], ka), s2m_val(xs[i - 1], ka, va))]


@spec(local=('xs', 'i'))
def s2m_mid(xs: 'Seq[YNode]', ka: str, i: int) -> 'Seq[YNode]':
    """the old item list while the second loop runs: the first i items have
    lost their key attribute in place"""
    if i <= 0:
        return empty_nodes()
    return s2m_mid(xs, ka, i - 1) + [removed(xs[i - 1], ka)]


@lemma(induct='n', triggers=['s2m_mid(xs, ka, n)'])
def s2m_mid_len(xs: 'Seq[YNode]', ka: str, n: int) -> bool:
    return implies(0 <= n, len(s2m_mid(xs, ka, n)) == n)


@lemma(induct='n', triggers=['s2m_valid(xs, ka, n)', 's2m_valid(xs, ka, i)'])
def s2m_valid_member(xs: 'Seq[YNode]', ka: str, i: int, n: int) -> bool:
    return implies(0 <= i and i < n and s2m_valid(xs, ka, n),
                   s2m_item_ok(xs[i], ka) and s2m_valid(xs, ka, i))


@spec
def upd_value(ps: 'Seq[YPair]', j: int, v: 'YNode') -> 'Seq[YPair]':
    """ps with the value of pair j replaced by v (key node kept)"""
    return seq_update(ps, j, P(ps[j].k, v))


@lemma(induct='n', triggers=['idx_of(qs, a, n)', 'upd_value(ps, j, v)'])
def idx_of_upd_value(ps: 'Seq[YPair]', qs: 'Seq[YPair]', j: int, v: 'YNode',
                     a: str, n: int) -> bool:
    """lookups by key do not depend on the values"""
    return implies(qs == upd_value(ps, j, v) and 0 <= j and j < len(ps)
                   and n <= len(ps),
                   idx_of(qs, a, n) == idx_of(ps, a, n))


@lemma(induct='n', triggers=['s2m_valid(xs, ka, n)', 's2m_mid(xs, ka, i)'])
def s2m_valid_at(xs: 'Seq[YNode]', ka: str, i: int, n: int) -> bool:
    return implies(0 <= i and i < n and s2m_valid(xs, ka, n),
                   s2m_item_ok(xs[i], ka))


@lemma(induct='n', triggers=['s2m_distinct(xs, ka, n)',
                             's2m_distinct(xs, ka, i)'])
def s2m_distinct_member(xs: 'Seq[YNode]', ka: str, i: int, n: int) -> bool:
    return implies(0 <= i and i < n and s2m_distinct(xs, ka, n),
                   s2m_distinct(xs, ka, i)
                   and not in_strs(first_value(xs[i], ka).val,
                                   s2m_seen(xs, ka, i)))
