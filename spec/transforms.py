"""Spec functions for the structural seasoning transforms (C15)."""
from pyvc.specrt import *      # noqa


@spec(local=('ps1', 'i'))
def keys_ud(ps0: 'Seq[YPair]', ps1: 'Seq[YPair]', i: int) -> bool:
    """the first i pairs of ps1 are those of ps0 with '_' replaced by '-' in
    the key text; everything else (tags, marks, values) untouched"""
    if i <= 0:
        return True
    return (keys_ud(ps0, ps1, i - 1)
            and ps1[i - 1].k == with_val(ps0[i - 1].k,
                                         dashed(ps0[i - 1].k.val))
            and ps1[i - 1].v == ps0[i - 1].v)


@spec(local=('ps1', 'i'))
def keys_du(ps0: 'Seq[YPair]', ps1: 'Seq[YPair]', i: int) -> bool:
    if i <= 0:
        return True
    return (keys_du(ps0, ps1, i - 1)
            and ps1[i - 1].k == with_val(ps0[i - 1].k,
                                         undashed(ps0[i - 1].k.val))
            and ps1[i - 1].v == ps0[i - 1].v)


@spec
def scalar_keys(ps: 'Seq[YPair]', i: int) -> bool:
    """the keys of the first i pairs are scalars"""
    if i <= 0:
        return True
    return scalar_keys(ps, i - 1) and ps[i - 1].k.kind == SCALAR


@lemma(induct='n', triggers=['scalar_keys(ps, n)', 'scalar_keys(ps, i)'])
def scalar_keys_member(ps: 'Seq[YPair]', i: int, n: int) -> bool:
    return implies(0 <= i and i < n and scalar_keys(ps, n),
                   ps[i].k.kind == SCALAR)
