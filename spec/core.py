"""Spec functions over YAML node values (DESIGN appendix A).

Pure Python, total.  Parsed by the prover (never imported by it); imported and
executed natively by the run-time monitor and by replay, with the definitions
of pyvc.specrt in scope.  Recursion is by index over sequences."""
from pyvc.specrt import *      # noqa

STR_TAG = 'tag:yaml.org,2002:str'
INT_TAG = 'tag:yaml.org,2002:int'
FLOAT_TAG = 'tag:yaml.org,2002:float'
BOOL_TAG = 'tag:yaml.org,2002:bool'
NULL_TAG = 'tag:yaml.org,2002:null'
MAP_TAG = 'tag:yaml.org,2002:map'
SEQ_TAG = 'tag:yaml.org,2002:seq'
TS_TAG = 'tag:yaml.org,2002:timestamp'
CORE_PREFIX = 'tag:yaml.org,2002:'


def keyeq(p: 'YPair', a: str) -> bool:
    """the key of pair p is the scalar spelled a"""
    return p.k.kind == SCALAR and p.k.val == a


@spec
def idx_of(ps: 'Seq[YPair]', a: str, i: int) -> int:
    """index of the first pair among the first i whose key is a, else -1"""
    if i <= 0:
        return -1
    if idx_of(ps, a, i - 1) != -1:
        return idx_of(ps, a, i - 1)
    return i - 1 if keyeq(ps[i - 1], a) else -1


@spec
def cnt(ps: 'Seq[YPair]', a: str, i: int) -> int:
    """number of pairs among the first i whose key is a"""
    if i <= 0:
        return 0
    return cnt(ps, a, i - 1) + (1 if keyeq(ps[i - 1], a) else 0)


def has(n: 'YNode', a: str) -> bool:
    return idx_of(n.pairs, a, len(n.pairs)) != -1


def at(n: 'YNode', a: str) -> int:
    return idx_of(n.pairs, a, len(n.pairs))


# ---- lemmas (proved by induction by the engine, then instantiated at the
# applications matching their triggers)

@lemma(induct='n', triggers=['idx_of(ps, a, i)', 'idx_of(ps, a, n)'])
def idx_of_first(ps: 'Seq[YPair]', a: str, i: int, n: int) -> bool:
    """a match at i with none before it is what idx_of reports from then on"""
    return implies(0 <= i and i < n and n <= len(ps)
                   and idx_of(ps, a, i) == -1 and keyeq(ps[i], a),
                   idx_of(ps, a, n) == i)


@lemma(induct='n', triggers=['idx_of(ps, a, n)'])
def idx_of_range(ps: 'Seq[YPair]', a: str, n: int) -> bool:
    """idx_of is -1 or the index of a matching pair below n, the first one"""
    return implies(n <= len(ps), idx_of(ps, a, n) == -1 or (
        0 <= idx_of(ps, a, n) and idx_of(ps, a, n) < n
        and keyeq(ps[idx_of(ps, a, n)], a)
        and idx_of(ps, a, idx_of(ps, a, n)) == -1))


@lemma(induct='n', triggers=['idx_of(ps, a, n)', 'cnt(ps, a, n)'])
def cnt_idx(ps: 'Seq[YPair]', a: str, n: int) -> bool:
    """there is a first match exactly when the count is positive"""
    return (cnt(ps, a, n) >= 0
            and (idx_of(ps, a, n) == -1) == (cnt(ps, a, n) == 0))


# ---- node shapes

def with_val(n: 'YNode', s: str) -> 'YNode':
    return N(n.kind, n.tag, s, n.items, n.pairs, n.smark, n.emark)


def with_pairs(n: 'YNode', ps: 'Seq[YPair]') -> 'YNode':
    return N(n.kind, n.tag, n.val, n.items, ps, n.smark, n.emark)


def same_header(a: 'YNode', b: 'YNode') -> bool:
    """everything but the pair list is equal"""
    return (a.kind == b.kind and a.tag == b.tag and a.val == b.val
            and a.items == b.items and a.smark == b.smark
            and a.emark == b.emark)


def is_scalar_node(n: 'YNode', tag: str, val: str) -> bool:
    return n.kind == SCALAR and n.tag == tag and n.val == val


# ---- scalar types and tags (statement: str, int, float, bool, None)

def is_scalar_type(t: 'Ty') -> bool:
    return (t == T_STR or t == T_INT or t == T_FLOAT or t == T_BOOL
            or t == T_BOOLFIX or t == T_NONE or t == T_NONETYPE
            or t == T_DATE)


def scalar_tag(t: 'Ty') -> str:
    if t == T_STR:
        return STR_TAG
    if t == T_INT:
        return INT_TAG
    if t == T_FLOAT:
        return FLOAT_TAG
    if t == T_BOOL or t == T_BOOLFIX:
        return BOOL_TAG
    if t == T_NONE or t == T_NONETYPE:
        return NULL_TAG
    if t == T_DATE:
        return TS_TAG
    return ''


def value_node_ok(n: 'YNode', v: 'PV') -> bool:
    """n is the node set_attribute documents for the value v"""
    if pv_is_str(v):
        return is_scalar_node(n, STR_TAG, pv_str(v))
    if pv_is_bool(v):
        return is_scalar_node(n, BOOL_TAG, 'true' if pv_bool(v) else 'false')
    if pv_is_int(v):
        return is_scalar_node(n, INT_TAG, str_of_int(pv_int(v)))
    if pv_is_float(v):
        return is_scalar_node(n, FLOAT_TAG, str_of_float(pv_float(v)))
    if pv_is_none(v):
        return is_scalar_node(n, NULL_TAG, '')
    if pv_is_node(v):
        return n == pv_node(v)
    return False


def scalar_text(v: 'PV') -> str:
    """the text set_value documents for a scalar value"""
    if pv_is_str(v):
        return pv_str(v)
    if pv_is_bool(v):
        return 'true' if pv_bool(v) else 'false'
    if pv_is_int(v):
        return str_of_int(pv_int(v))
    if pv_is_float(v):
        return str_of_float(pv_float(v))
    return 'None'


def has_scalar_core_tag(n: 'YNode') -> bool:
    return (n.tag == STR_TAG or n.tag == INT_TAG or n.tag == FLOAT_TAG
            or n.tag == BOOL_TAG or n.tag == NULL_TAG)
