"""Spec functions over YAML node values (DESIGN appendix A).

Pure Python, total.  Parsed by the prover (never imported by it); imported and
executed natively by the run-time monitor and by replay, with the definitions
of pyvc.specrt in scope.  Recursion is by index over sequences."""
from pyvc.specrt import *      # noqa

STR_TAG = 'tag:yaml.org,2002:str'
INT_TAG = 'tag:yaml.org,2002:int'
FLOAT_TAG = 'tag:yaml.org,2002:float'
BOOL_TAG = 'tag:yaml.org,2002:bool'
NULL_TAG = 'tag:yaml.org,2002:null'
MAP_TAG = 'tag:yaml.org,2002:map'
SEQ_TAG = 'tag:yaml.org,2002:seq'
TS_TAG = 'tag:yaml.org,2002:timestamp'
CORE_PREFIX = 'tag:yaml.org,2002:'


def keyeq(p: 'YPair', a: str) -> bool:
    """the key of pair p is the scalar spelled a"""
    return p.k.kind == SCALAR and p.k.val == a


@spec
def idx_of(ps: 'Seq[YPair]', a: str, i: int) -> int:
    """index of the first pair among the first i whose key is a, else -1"""
    if i <= 0:
        return -1
    if idx_of(ps, a, i - 1) != -1:
        return idx_of(ps, a, i - 1)
    return i - 1 if keyeq(ps[i - 1], a) else -1


@spec
def cnt(ps: 'Seq[YPair]', a: str, i: int) -> int:
    """number of pairs among the first i whose key is a"""
    if i <= 0:
        return 0
    return cnt(ps, a, i - 1) + (1 if keyeq(ps[i - 1], a) else 0)


def has(n: 'YNode', a: str) -> bool:
    return idx_of(n.pairs, a, len(n.pairs)) != -1


def at(n: 'YNode', a: str) -> int:
    return idx_of(n.pairs, a, len(n.pairs))


# ---- lemmas (proved by induction by the engine, then instantiated at the
# applications matching their triggers)

@lemma(induct='n', triggers=['idx_of(ps, a, i)', 'idx_of(ps, a, n)'])
def idx_of_first(ps: 'Seq[YPair]', a: str, i: int, n: int) -> bool:
    """a match at i with none before it is what idx_of reports from then on"""
    return implies(0 <= i and i < n and n <= len(ps)
                   and idx_of(ps, a, i) == -1 and keyeq(ps[i], a),
                   idx_of(ps, a, n) == i)


@lemma(induct='n', triggers=['idx_of(ps, a, n)'])
def idx_of_range(ps: 'Seq[YPair]', a: str, n: int) -> bool:
    """idx_of is -1 or the index of a matching pair below n, the first one"""
    return implies(n <= len(ps), idx_of(ps, a, n) == -1 or (
        0 <= idx_of(ps, a, n) and idx_of(ps, a, n) < n
        and keyeq(ps[idx_of(ps, a, n)], a)
        and idx_of(ps, a, idx_of(ps, a, n)) == -1))


@lemma(induct='n', triggers=['idx_of(ps, a, n)', 'cnt(ps, a, n)'])
def cnt_idx(ps: 'Seq[YPair]', a: str, n: int) -> bool:
    """there is a first match exactly when the count is positive"""
    return (cnt(ps, a, n) >= 0
            and (idx_of(ps, a, n) == -1) == (cnt(ps, a, n) == 0))


# ---- node shapes

def with_val(n: 'YNode', s: str) -> 'YNode':
    return N(n.kind, n.tag, s, n.items, n.pairs, n.smark, n.emark)


def with_pairs(n: 'YNode', ps: 'Seq[YPair]') -> 'YNode':
    return N(n.kind, n.tag, n.val, n.items, ps, n.smark, n.emark)


def same_header(a: 'YNode', b: 'YNode') -> bool:
    """everything but the pair list is equal"""
    return (a.kind == b.kind and a.tag == b.tag and a.val == b.val
            and a.items == b.items and a.smark == b.smark
            and a.emark == b.emark)


def is_scalar_node(n: 'YNode', tag: str, val: str) -> bool:
    return n.kind == SCALAR and n.tag == tag and n.val == val


# ---- scalar types and tags (statement: str, int, float, bool, None)

def is_scalar_type(t: 'Ty') -> bool:
    return (t == T_STR or t == T_INT or t == T_FLOAT or t == T_BOOL
            or t == T_BOOLFIX or t == T_NONE or t == T_NONETYPE
            or t == T_DATE)


def scalar_tag(t: 'Ty') -> str:
    if t == T_STR:
        return STR_TAG
    if t == T_INT:
        return INT_TAG
    if t == T_FLOAT:
        return FLOAT_TAG
    if t == T_BOOL or t == T_BOOLFIX:
        return BOOL_TAG
    if t == T_NONE or t == T_NONETYPE:
        return NULL_TAG
    if t == T_DATE:
        return TS_TAG
    return ''


def value_node_ok(n: 'YNode', v: 'PV') -> bool:
    """n is the node set_attribute documents for the value v"""
    if pv_is_str(v):
        return is_scalar_node(n, STR_TAG, pv_str(v))
    if pv_is_bool(v):
        return is_scalar_node(n, BOOL_TAG, 'true' if pv_bool(v) else 'false')
    if pv_is_int(v):
        return is_scalar_node(n, INT_TAG, str_of_int(pv_int(v)))
    if pv_is_float(v):
        return is_scalar_node(n, FLOAT_TAG, str_of_float(pv_float(v)))
    if pv_is_none(v):
        return is_scalar_node(n, NULL_TAG, '')
    if pv_is_node(v):
        return n == pv_node(v)
    return False


def scalar_text(v: 'PV') -> str:
    """the text set_value documents for a scalar value"""
    if pv_is_str(v):
        return pv_str(v)
    if pv_is_bool(v):
        return 'true' if pv_bool(v) else 'false'
    if pv_is_int(v):
        return str_of_int(pv_int(v))
    if pv_is_float(v):
        return str_of_float(pv_float(v))
    return 'None'


def has_scalar_core_tag(n: 'YNode') -> bool:
    return (n.tag == STR_TAG or n.tag == INT_TAG or n.tag == FLOAT_TAG
            or n.tag == BOOL_TAG or n.tag == NULL_TAG)


# ---- UnknownNode.require_scalar(*types)  (C16)

@spec
def all_scalar_from(ts: 'Seq[Ty]', i: int) -> bool:
    """ts[i:] are all scalar types (the documented argument domain)"""
    if i >= len(ts):
        return True
    if i < 0:
        return False
    return is_scalar_type(ts[i]) and all_scalar_from(ts, i + 1)


@spec
def tag_among(tag: str, ts: 'Seq[Ty]', i: int) -> bool:
    """tag is the tag of one of the first i types"""
    if i <= 0:
        return False
    return tag_among(tag, ts, i - 1) or tag == scalar_tag(ts[i - 1])


def first_value(n: 'YNode', a: str) -> 'YNode':
    """value node of the first pair whose key is spelled a"""
    return n.pairs[at(n, a)].v


@lemma(induct='n', triggers=['tag_among(tag, ts, i)', 'tag_among(tag, ts, n)'])
def tag_among_hit(tag: str, ts: 'Seq[Ty]', i: int, n: int) -> bool:
    return implies(0 <= i and i < n and tag == scalar_tag(ts[i]),
                   tag_among(tag, ts, n))


@spec
def strkey_count(ps: 'Seq[YPair]', a: str, i: int) -> int:
    """pairs among the first i whose key is a str-tagged scalar spelled a"""
    if i <= 0:
        return 0
    return strkey_count(ps, a, i - 1) + (
        1 if ps[i - 1].k.tag == STR_TAG and keyeq(ps[i - 1], a) else 0)


@lemma(induct='n', triggers=['strkey_count(ps, a, n)'])
def strkey_count_nonneg(ps: 'Seq[YPair]', a: str, n: int) -> bool:
    return strkey_count(ps, a, n) >= 0


@spec
def scalar_values_ok(ps: 'Seq[YPair]', i: int) -> bool:
    """the scalar value nodes among the first i pairs carry text in the
    domain of the constructor of their tag -- true of every scalar PyYAML
    typed implicitly (C09 / PyYAML's own tables); an explicit core tag on
    garbage (known finding D10) is excluded"""
    if i <= 0:
        return True
    return scalar_values_ok(ps, i - 1) and scalar_text_ok(ps[i - 1].v)


def scalar_text_ok(n: 'YNode') -> bool:
    return implies(n.kind == SCALAR, (
        implies(n.tag == INT_TAG, yaml_int_dom(n.val))
        and implies(n.tag == FLOAT_TAG, yaml_float_dom(n.val))
        and implies(n.tag == BOOL_TAG, yaml_bool_dom(n.val))))


@lemma(induct='n', triggers=['scalar_values_ok(ps, n)', 'strkey_count(ps, a, i)'])
def scalar_values_member(ps: 'Seq[YPair]', a: str, i: int, n: int) -> bool:
    return implies(0 <= i and i < n and scalar_values_ok(ps, n),
                   scalar_text_ok(ps[i].v))


def strkeyeq(p: 'YPair', a: str) -> bool:
    return p.k.tag == STR_TAG and keyeq(p, a)


@spec
def sidx(ps: 'Seq[YPair]', a: str, i: int) -> int:
    """index of the first pair among the first i with a str key spelled a"""
    if i <= 0:
        return -1
    if sidx(ps, a, i - 1) != -1:
        return sidx(ps, a, i - 1)
    return i - 1 if strkeyeq(ps[i - 1], a) else -1


@lemma(induct='n', triggers=['sidx(ps, a, i)', 'sidx(ps, a, n)'])
def sidx_first(ps: 'Seq[YPair]', a: str, i: int, n: int) -> bool:
    return implies(0 <= i and i < n and n <= len(ps)
                   and sidx(ps, a, i) == -1 and strkeyeq(ps[i], a),
                   sidx(ps, a, n) == i)


@lemma(induct='n', triggers=['sidx(ps, a, n)', 'strkey_count(ps, a, n)'])
def sidx_count(ps: 'Seq[YPair]', a: str, n: int) -> bool:
    return (sidx(ps, a, n) == -1) == (strkey_count(ps, a, n) == 0)


def constructed_pv(n: 'YNode') -> 'PV':
    """the Python value a load constructs from a core-tagged scalar node"""
    if n.tag == STR_TAG:
        return mk_pv_str(n.val)
    if n.tag == INT_TAG:
        return mk_pv_int(yaml_int(n.val))
    if n.tag == FLOAT_TAG:
        return mk_pv_float(yaml_float(n.val))
    if n.tag == BOOL_TAG:
        return mk_pv_bool(yaml_bool(n.val))
    return mk_pv_none()


def value_is(n: 'YNode', v: 'PV') -> bool:
    """n is a scalar of v's type whose constructed value equals v"""
    return (n.kind == SCALAR and n.tag == scalar_tag(typeof(v))
            and pv_equal(constructed_pv(n), v))


@spec
def all_value_is(ps: 'Seq[YPair]', a: str, v: 'PV', i: int) -> bool:
    """every pair among the first i with a str key spelled a holds a scalar of
    v's type equal to v"""
    if i <= 0:
        return True
    return all_value_is(ps, a, v, i - 1) and implies(
        strkeyeq(ps[i - 1], a), value_is(ps[i - 1].v, v))


@lemma(induct='n', triggers=['all_value_is(ps, a, v, i)',
                             'all_value_is(ps, a, v, n)'])
def all_value_is_bad(ps: 'Seq[YPair]', a: str, v: 'PV', i: int,
                     n: int) -> bool:
    return implies(0 <= i and i < n and strkeyeq(ps[i], a)
                   and not value_is(ps[i].v, v),
                   not all_value_is(ps, a, v, n))


def typed_as(n: 'YNode', v: 'PV') -> bool:
    return n.kind == SCALAR and n.tag == scalar_tag(typeof(v))


@spec
def vn_state(ps: 'Seq[YPair]', a: str, v: 'PV', i: int) -> int:
    """require_attribute_value_not scanning the first i pairs: 0 = every pair
    keyed a so far is a scalar of v's type different from v, 1 = a pair keyed
    a that is not a scalar of v's type was met first (accepted), 2 = a pair
    keyed a equal to v was met first (rejected)"""
    if i <= 0:
        return 0
    if vn_state(ps, a, v, i - 1) != 0:
        return vn_state(ps, a, v, i - 1)
    if not strkeyeq(ps[i - 1], a):
        return 0
    if not typed_as(ps[i - 1].v, v):
        return 1
    return 2 if value_is(ps[i - 1].v, v) else 0


@lemma(induct='n', triggers=['vn_state(ps, a, v, i)', 'vn_state(ps, a, v, n)'])
def vn_state_stop(ps: 'Seq[YPair]', a: str, v: 'PV', i: int, n: int) -> bool:
    """once decided, the scan result does not change"""
    return implies(0 <= i and i <= n and vn_state(ps, a, v, i) != 0,
                   vn_state(ps, a, v, n) == vn_state(ps, a, v, i))


@lemma(induct='n', triggers=['vn_state(ps, a, v, i)', 'vn_state(ps, a, v, n)'])
def vn_state_hit(ps: 'Seq[YPair]', a: str, v: 'PV', i: int, n: int) -> bool:
    """the first pair keyed a that is of another type / equal decides"""
    return implies(0 <= i and i < n and vn_state(ps, a, v, i) == 0
                   and strkeyeq(ps[i], a)
                   and (not typed_as(ps[i].v, v) or value_is(ps[i].v, v)),
                   vn_state(ps, a, v, n) == (
                       1 if not typed_as(ps[i].v, v) else 2))
