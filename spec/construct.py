"""Spec of the constructors' attribute type check (C01): tm(obj, t) is the
statement's "argument conforming to the parameter's annotation" at the level
the constructor can see it: isinstance for classes and built-ins (bool counts
as int, as in Python), element-wise for List / Dict, some member for Union,
bool for bool_union_fix, anything for Any."""
from pyvc.specrt import *      # noqa


@spec
def tm(o: 'PyV', t: 'Ty') -> bool:
    if ty_is_union(t):
        return tm_any(o, ty_members(t), len(ty_members(t)))
    if ty_is_list(t):
        return py_is_list(o) and tm_all(py_items(o), ty_elem(t),
                                        len(py_items(o)))
    if ty_is_dict(t):
        return py_is_dict(o) and tm_pairs(py_keys(o), py_vals(o), ty_key(t),
                                          ty_dval(t), len(py_keys(o)))
    if t == T_BOOLFIX:
        return py_is_bool(o)
    if t == T_ANY:
        return True
    return py_inst(o, t)


@spec
def tm_any(o: 'PyV', ts: 'Seq[Ty]', i: int) -> bool:
    if i <= 0:
        return False
    return tm_any(o, ts, i - 1) or tm(o, ts[i - 1])


@spec
def tm_all(xs: 'Seq[PyV]', t: 'Ty', i: int) -> bool:
    if i <= 0:
        return True
    return tm_all(xs, t, i - 1) and tm(xs[i - 1], t)


@spec
def tm_pairs(ks: 'Seq[PyV]', vs: 'Seq[PyV]', kt: 'Ty', vt: 'Ty',
             i: int) -> bool:
    if i <= 0:
        return True
    return (tm_pairs(ks, vs, kt, vt, i - 1) and py_inst(ks[i - 1], kt)
            and tm(vs[i - 1], vt))


@lemma(induct='n', triggers=['tm_any(o, ts, i)', 'tm_any(o, ts, n)'])
def tm_any_hit(o: 'PyV', ts: 'Seq[Ty]', i: int, n: int) -> bool:
    return implies(0 <= i and i < n and tm(o, ts[i]), tm_any(o, ts, n))


@lemma(induct='n', triggers=['tm_all(xs, t, i)', 'tm_all(xs, t, n)'])
def tm_all_bad(xs: 'Seq[PyV]', t: 'Ty', i: int, n: int) -> bool:
    return implies(0 <= i and i < n and not tm(xs[i], t),
                   not tm_all(xs, t, n))


@lemma(induct='n', triggers=['tm_pairs(ks, vs, kt, vt, i)',
                             'tm_pairs(ks, vs, kt, vt, n)'])
def tm_pairs_bad(ks: 'Seq[PyV]', vs: 'Seq[PyV]', kt: 'Ty', vt: 'Ty', i: int,
                 n: int) -> bool:
    return implies(0 <= i and i < n and (
        not py_inst(ks[i], kt) or not tm(vs[i], vt)),
        not tm_pairs(ks, vs, kt, vt, n))


# ---- the attribute checks of Constructor.__call__ over the constructed
# mapping m (a dict: keys and values in order)

def attr_ok(m: 'PyV', name: str, t: 'Ty', req: bool) -> bool:
    """a required parameter has an argument; an argument that is present
    conforms to the parameter's type"""
    return ((not req or py_has(m, name))
            and (not py_has(m, name) or tm(py_get(m, name), t)))


@spec
def cna_ok(m: 'PyV', c: 'Ty', i: int) -> bool:
    """attr_ok for the first i parameters of class c"""
    if i <= 0:
        return True
    return cna_ok(m, c, i - 1) and attr_ok(
        m, cls_pname(c, i - 1), cls_ptype(c, i - 1), cls_preq(c, i - 1))


def key_ok(k: 'PyV', v: 'PyV', a: 'ArgSpec') -> bool:
    """a key of the mapping is a str, names a constructor parameter unless the
    class takes _yatiml_extra, and its value conforms to the annotation of
    that parameter if there is one"""
    return (py_is_str(k)
            and (in_strs(py_str(k), as_args(a))
                 or in_strs('_yatiml_extra', as_args(a)))
            and (not (in_strs(py_str(k), as_args(a))
                      and as_has_ann(a, py_str(k)))
                 or tm(v, as_ann(a, py_str(k)))))


@spec
def tca_ok(ks: 'Seq[PyV]', vs: 'Seq[PyV]', a: 'ArgSpec', i: int) -> bool:
    if i <= 0:
        return True
    return tca_ok(ks, vs, a, i - 1) and key_ok(ks[i - 1], vs[i - 1], a)


@spec
def keys_from(ks: 'Seq[PyV]', ps: 'Seq[YPair]', i: int) -> bool:
    """every str key among the first i comes from a key node of that
    spelling (E-CONSTRUCT: construct_mapping builds the dict from the node's
    pairs)"""
    if i <= 0:
        return True
    return keys_from(ks, ps, i - 1) and (
        not py_is_str(ks[i - 1]) or cnt(ps, py_str(ks[i - 1]), len(ps)) > 0)


@lemma(induct='n', triggers=['cna_ok(m, c, i)', 'cna_ok(m, c, n)'])
def cna_bad(m: 'PyV', c: 'Ty', i: int, n: int) -> bool:
    return implies(0 <= i and i < n and not attr_ok(
        m, cls_pname(c, i), cls_ptype(c, i), cls_preq(c, i)),
        not cna_ok(m, c, n))


@lemma(induct='n', triggers=['tca_ok(ks, vs, a, i)', 'tca_ok(ks, vs, a, n)'])
def tca_bad(ks: 'Seq[PyV]', vs: 'Seq[PyV]', a: 'ArgSpec', i: int,
            n: int) -> bool:
    return implies(0 <= i and i < n and not key_ok(ks[i], vs[i], a),
                   not tca_ok(ks, vs, a, n))


@lemma(induct='n', triggers=['keys_from(ks, ps, n)',
                             'cnt(ps, py_str(ks[i]), m)'])
def keys_from_at(ks: 'Seq[PyV]', ps: 'Seq[YPair]', i: int, n: int,
                 m: int) -> bool:
    return implies(0 <= i and i < n and keys_from(ks, ps, n)
                   and py_is_str(ks[i]), cnt(ps, py_str(ks[i]), len(ps)) > 0)
