"""Spec of what Representer.__call__ hands to PyYAML (C06): the object's
projection as an ordered list of (name, value) pairs."""
from pyvc.specrt import *      # noqa


@spec(local=('ks', 'i'))
def zipkv(ks: 'Seq[PyV]', vs: 'Seq[PyV]', i: int) -> 'Seq[PyPair]':
    """the first i items of a dict with keys ks and values vs"""
    if i <= 0:
        return empty_pypairs()
    return zipkv(ks, vs, i - 1) + [mk_pypair(ks[i - 1], vs[i - 1])]


@spec(local=('names', 'i'))
def pattrs(o: 'PyV', names: 'Seq[str]', i: int) -> 'Seq[PyPair]':
    """(name, attribute value) for the first i constructor parameters, in
    declaration order, _yatiml_extra itself left out"""
    if i <= 0:
        return empty_pypairs()
    if names[i - 1] == '_yatiml_extra':
        return pattrs(o, names, i - 1)
    return pattrs(o, names, i - 1) + [
        mk_pypair(mk_py_str(names[i - 1]), py_attr(o, names[i - 1]))]


def params_of(o: 'PyV') -> 'Seq[str]':
    """the constructor parameters after self"""
    return as_arglist(cls_argspec(py_type(o)))[1:]


def items_of(d: 'PyV') -> 'Seq[PyPair]':
    return zipkv(py_keys(d), py_vals(d), len(py_keys(d)))


def projection(o: 'PyV') -> 'Seq[PyPair]':
    """the statement's projection of an object of a user class: whatever
    _yatiml_attributes returns, else constructor parameters in declaration
    order followed by the extra attributes in their order"""
    if py_hasattr(o, '_yatiml_attributes'):
        return items_of(py_yattrs(o))
    if '_yatiml_extra' in params_of(o):
        return pattrs(o, params_of(o), len(params_of(o))) + items_of(
            py_attr(o, '_yatiml_extra'))
    return pattrs(o, params_of(o), len(params_of(o)))
