"""Spec functions for the loader (C01, C02, C04, C10): tags of types, plain
(tag-free) subtrees, the order in which savorize hooks must run."""
from pyvc.specrt import *      # noqa


def tag_of(t: 'Ty') -> str:
    """the tag a node of recognised type t is given: built-ins their core
    tag, lists seq, dicts map, registered classes '!' + class name, Path
    '!Path'"""
    if is_scalar_type(t):
        return scalar_tag(t)
    if ty_is_list(t):
        return SEQ_TAG
    if ty_is_dict(t):
        return MAP_TAG
    if reg_has(t):
        return '!' + cls_name(t)
    if t == T_PATH:
        return '!Path'
    return ''


# ---- savorize order, written from the statement: the hooks defined in the
# bodies of the registered bases (recursively, in base order), then the
# class's own; a class's hook only if it is in the class's own body

@spec
def sav_order_b(c: 'Ty', i: int) -> 'Seq[Ty]':
    if i <= 0:
        return empty_tys()
    return sav_order_b(c, i - 1) + (
        sav_order(cls_bases(c)[i - 1]) if reg_has(cls_bases(c)[i - 1])
        else empty_tys())


@spec
def sav_order(c: 'Ty') -> 'Seq[Ty]':
    return sav_order_b(c, len(cls_bases(c))) + (
        [c] if cls_own_savorize(c) else empty_tys())


# ---- plain subtrees (C04): every tag below is a core-schema tag, sequences
# and mappings carry exactly the seq / map tag

@spec
def plain(n: 'YNode') -> bool:
    if n.kind == SCALAR:
        return startswith(n.tag, CORE_PREFIX)
    if n.kind == SEQ:
        return n.tag == SEQ_TAG and plain_items(n.items, len(n.items))
    if n.kind == MAP:
        return n.tag == MAP_TAG and plain_pairs(n.pairs, len(n.pairs))
    return True


@spec(local=('xs', 'i'))
def plain_items(xs: 'Seq[YNode]', i: int) -> bool:
    if i <= 0:
        return True
    return plain_items(xs, i - 1) and plain(xs[i - 1])


@spec(local=('ps', 'i'))
def plain_pairs(ps: 'Seq[YPair]', i: int) -> bool:
    if i <= 0:
        return True
    return (plain_pairs(ps, i - 1) and plain(ps[i - 1].k)
            and plain(ps[i - 1].v))


# ---- what processing a node for an expected type must produce (C01, C02,
# C04): relation between the node before (n0) and after (n1)

@spec
def proc_rel(n0: 'YNode', t: 'Ty', n1: 'YNode') -> bool:
    """n0 is recognised as exactly one type r for expected type t, and n1
    carries r's tag; below Any everything is plain; lists and dicts are
    processed element-wise with their element types"""
    if not card1(rec(n0, t)):
        return False
    if the(rec(n0, t)) == T_ANY:
        return plain(n1)
    if ty_is_list(the(rec(n0, t))):
        return (n1.kind == SEQ and n1.tag == SEQ_TAG
                and len(n1.items) == len(n0.items)
                and proc_items(n0.items, ty_elem(the(rec(n0, t))), n1.items,
                               len(n0.items)))
    if ty_is_dict(the(rec(n0, t))):
        return (n1.kind == MAP and n1.tag == MAP_TAG
                and len(n1.pairs) == len(n0.pairs)
                and proc_pairs(n0.pairs, ty_key(the(rec(n0, t))),
                               ty_dval(the(rec(n0, t))), n1.pairs,
                               len(n0.pairs)))
    return n1.tag == tag_of(the(rec(n0, t)))


@spec(local=('xs1', 'i'))
def proc_items(xs0: 'Seq[YNode]', t: 'Ty', xs1: 'Seq[YNode]', i: int) -> bool:
    if i <= 0:
        return True
    return proc_items(xs0, t, xs1, i - 1) and proc_rel(
        xs0[i - 1], t, xs1[i - 1])


@spec(local=('ps1', 'i'))
def proc_pairs(ps0: 'Seq[YPair]', kt: 'Ty', vt: 'Ty', ps1: 'Seq[YPair]',
               i: int) -> bool:
    if i <= 0:
        return True
    return (proc_pairs(ps0, kt, vt, ps1, i - 1)
            and proc_rel(ps0[i - 1].k, kt, ps1[i - 1].k)
            and proc_rel(ps0[i - 1].v, vt, ps1[i - 1].v))


# ---- Constructor.__strip_extra_attributes (C04): every key is a str scalar;
# values of keys that are not constructor parameters are plain

@spec(local=('ps', 'i'))
def extras_plain(ps: 'Seq[YPair]', known: 'Set[str]', i: int) -> bool:
    if i <= 0:
        return True
    return (extras_plain(ps, known, i - 1)
            and ps[i - 1].k.kind == SCALAR and ps[i - 1].k.tag == STR_TAG
            and (in_strs(ps[i - 1].k.val, known) or plain(ps[i - 1].v)))


# ---- sweeten order on dumping: the same rule as savorize (C10, C06)

@spec
def swe_order_b(c: 'Ty', i: int) -> 'Seq[Ty]':
    if i <= 0:
        return empty_tys()
    return swe_order_b(c, i - 1) + (
        swe_order(cls_bases(c)[i - 1]) if reg_has(cls_bases(c)[i - 1])
        else empty_tys())


@spec
def swe_order(c: 'Ty') -> 'Seq[Ty]':
    return swe_order_b(c, len(cls_bases(c))) + (
        [c] if cls_own_sweeten(c) else empty_tys())
