#!/bin/sh
# regenerate baselines and evidence for every claimed property on /repo
cd "$(dirname "$0")" || exit 3
rc=0
for p in $(python3 -c "import json; print(' '.join(c['property_id'] for c in json.load(open('MANIFEST.json'))['checks']))"); do
  ./check "$p" --write-baseline | tail -1 || rc=1
done
exit $rc
