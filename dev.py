"""developer helper: verify functions, print undischarged, optionally dump smt2"""
import sys, os, time
sys.path.insert(0, '/verif')
from pyvc import driver, solve
import z3
dump = None
args = []
budget = 10
unfold = None
for a in sys.argv[1:]:
    if a.startswith('--dump='):
        dump = a[7:]
    elif a.startswith('--budget='):
        budget = int(a[9:])
    elif a == '--lemmas':
        pass
    elif a.startswith('--unfold='):
        unfold = int(a[9:])
    else:
        args.append(a)
opts = {}
if unfold is not None:
    opts['unfold'] = unfold
eng, ver, tm = driver.run(args, verbose=True, budget=budget, opts=opts, lemmas='--lemmas' in sys.argv)
can = {}
bad = 0
for ob in eng.obligations:
    if ob.cls == 'canary':
        can.setdefault(ob.group, []).append(ob.status)
        continue
    if ob.status != 'unsat' and ob.cls != 'cover':
        bad += 1
        print(ob.status.upper(), ob.group, '|', ob.label[:150], '| line', ob.line, ob.note[:12], ob.note[-110:])
        if ob.model:
            for k, v in ob.model.items():
                print('      ', k, '=', v[:400].replace('\n', ' '))
        if dump and dump in ob.group:
            fs = list(ob.pc) + [z3.Not(ob.goal)] + list(ob.axioms)
            open('/tmp/dump.smt2', 'w').write(solve.to_smt2(fs))
            print('   dumped to /tmp/dump.smt2')
            dump = None
for g, sts in can.items():
    if 'sat' not in sts:
        print('CANARY NOT REFUTED', g, sts)
print('%d obligations, %d not discharged; %s' % (len(eng.obligations), bad, tm))
for u in eng.unsupported:
    print('UNSUPPORTED', u)
