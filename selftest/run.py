"""Mutant self-test (DESIGN 5.3): each mutant is a textual replacement in a
scratch copy of the repository (mktemp dir, removed afterwards); the check of
its property is run with VERIF_REPO pointing at the copy and must exit 1
(expect=violation) or 0 (expect=ok: harmless edit / equivalent mutant).
A mutant may also be a patch file (the seeded changes of seeded/<id>/, see
selftest/mutants/seeds.json).

usage: python3 selftest/run.py [--prop C09] [--name substr] [--jobs N]"""
import argparse
import json
import os
import shutil
import subprocess
import sys
import tempfile
from concurrent.futures import ThreadPoolExecutor

VERIF = os.path.dirname(os.path.dirname(os.path.abspath(__file__)))
REPO = os.environ.get('VERIF_REPO', '/repo')


def load():
    out = []
    d = os.path.join(VERIF, 'selftest', 'mutants')
    for fn in sorted(os.listdir(d)):
        if fn.endswith('.json'):
            with open(os.path.join(d, fn)) as f:
                for m in json.load(f):
                    out.append(m)
    return out


def run_one(m):
    tmp = tempfile.mkdtemp(prefix='vmut_')
    try:
        shutil.copytree(os.path.join(REPO, 'yatiml'),
                        os.path.join(tmp, 'yatiml'))
        if m.get('patch'):
            pr = subprocess.run(['patch', '-p1', '-s', '-d', tmp, '-i',
                                 os.path.join(VERIF, m['patch'])],
                                stdout=subprocess.PIPE,
                                stderr=subprocess.STDOUT, text=True)
            if pr.returncode != 0:
                return m, 'STALE', 'patch does not apply: ' + pr.stdout[-200:]
        for ed in m.get('edits', []):
            p = os.path.join(tmp, ed['file'])
            with open(p) as f:
                s = f.read()
            if ed['old'] not in s:
                return m, 'STALE', 'pattern not found in ' + ed['file']
            s = s.replace(ed['old'], ed['new'], ed.get('count', 1))
            with open(p, 'w') as f:
                f.write(s)
        res = {}
        for pid in m['properties']:
            env = dict(os.environ)
            env['VERIF_REPO'] = tmp
            env['VERIF_NO_EVIDENCE'] = '1'
            p = subprocess.run([os.path.join(VERIF, 'check'), pid],
                               env=env, stdout=subprocess.PIPE,
                               stderr=subprocess.STDOUT, text=True)
            res[pid] = (p.returncode, p.stdout[-600:])
        want = 1 if m['expect'] == 'violation' else 0
        if m['expect'] == 'violation':
            ok = any(rc == 1 for rc, _ in res.values())
        else:
            ok = all(rc == 0 for rc, _ in res.values())
        return m, 'PASS' if ok else 'FAIL', {k: v[0] for k, v in res.items()}, res
    finally:
        shutil.rmtree(tmp, ignore_errors=True)


def main():
    ap = argparse.ArgumentParser()
    ap.add_argument('--prop')
    ap.add_argument('--name')
    ap.add_argument('--jobs', type=int, default=4)
    ap.add_argument('-v', action='store_true')
    ap.add_argument('--only-prop', action='store_true',
                    help='run only the check of --prop for each mutant')
    a = ap.parse_args()
    ms = [m for m in load()
          if (not a.prop or a.prop in m['properties'])
          and (not a.name or a.name in m['name'])]
    if a.only_prop and a.prop:
        ms = [dict(m, properties=[a.prop]) for m in ms]
    bad = 0
    with ThreadPoolExecutor(a.jobs) as ex:
        for r in ex.map(run_one, ms):
            m, verdict, info = r[0], r[1], r[2]
            print('%-5s %-45s expect=%-9s %s' % (verdict, m['name'],
                                                m['expect'], info))
            if verdict != 'PASS':
                bad += 1
                if a.v and len(r) > 3:
                    for pid, (rc, out) in r[3].items():
                        print(out)
    print('%d mutants, %d not as expected' % (len(ms), bad))
    return 1 if bad else 0


if __name__ == '__main__':
    sys.exit(main())
