"""Known finding D24 (C07, reload clause): a date / datetime attribute is
dumped to JSON as an ISO string (as documented), but a date-typed constructor
parameter does not accept a string when the text is loaded again, so
load(dumps_json(x)) fails for every value that contains a date.
Exit 0 = still reproduces."""
import datetime
import sys
import yatiml


class Event:
    def __init__(self, name: str, day: datetime.date) -> None:
        self.name = name
        self.day = day


dumps = yatiml.dumps_json_function(Event)
load = yatiml.load_function(Event)
text = dumps(Event('launch', datetime.date(2020, 2, 29)))
print('text:', text)
try:
    back = load(text)
    ok = isinstance(back, Event) and back.day == datetime.date(2020, 2, 29)
    print('reloaded:', vars(back))
except yatiml.RecognitionError as ex:
    ok = False
    print('reload failed:', str(ex).splitlines()[-1])
sys.exit(1 if ok else 0)
