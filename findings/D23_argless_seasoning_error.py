import yatiml
class A:
    def __init__(self, x: int) -> None:
        self.x = x
    @classmethod
    def _yatiml_savorize(cls, node: yatiml.Node) -> None:
        raise yatiml.SeasoningError()
load = yatiml.load_function(A)
try:
    load('x: 1')
    print('returned')
except (yatiml.RecognitionError,) as e:
    print('RecognitionError', e)
except Exception as e:
    print('ESCAPED', type(e).__name__, e)

class B:
    def __init__(self, x: int) -> None:
        self.x = x
    @classmethod
    def _yatiml_recognize(cls, node: yatiml.UnknownNode) -> None:
        raise yatiml.RecognitionError()
load = yatiml.load_function(B)
try:
    load('x: 1')
    print('returned')
except (yatiml.RecognitionError,) as e:
    print('RecognitionError', repr(e))
except Exception as e:
    print('ESCAPED', type(e).__name__, e)
