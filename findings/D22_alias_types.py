"""Known finding D22 (C18).  Exit 0 = still reproduces."""
import sys
from typing import Any
import yatiml


class Item:
    def __init__(self, a: int) -> None:
        self.a = a


class Mixed:
    def __init__(self, p: Item, q: Any) -> None:
        self.p = p
        self.q = q


load = yatiml.load_function(Mixed, Item)
v = load('p: {a: 1}\nq: {a: 1}\n')
ok_expanded = isinstance(v.p, Item) and isinstance(v.q, dict)
try:
    load('p: &i {a: 1}\nq: *i\n')
    aliased_fails = False
except yatiml.RecognitionError:
    aliased_fails = True
print('expanded loads:', ok_expanded, 'aliased fails:', aliased_fails)
sys.exit(0 if ok_expanded and aliased_fails else 1)
