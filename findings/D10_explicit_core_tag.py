"""Known finding D10 (C08): an explicit core-schema tag on a scalar whose text
is not in the domain of PyYAML's constructor for that tag makes a non-yatiml,
non-YAML exception escape from the load function.  Exit 0 = still reproduces."""
import sys
import yaml
import yatiml

cases = [('!!float x', float), ('!!bool x', bool), ('!!int x', int)]
escaped = []
for text, typ in cases:
    load = yatiml.load_function(typ)
    try:
        load(text)
    except (yatiml.RecognitionError, yaml.YAMLError):
        pass
    except Exception as ex:      # noqa
        escaped.append((text, type(ex).__name__))
print('escaped:', escaped)
sys.exit(0 if len(escaped) == len(cases) else 1)
