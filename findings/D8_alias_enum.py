"""Known finding D8 (C18).  Exit 0 = still reproduces."""
import enum
import sys
from typing import List
import yatiml


class Color(enum.Enum):
    red = 1


load = yatiml.load_function(List[Color], Color)
ok_expanded = load('[red, red]') == [Color.red, Color.red]
try:
    load('[&a red, *a]')
    aliased_fails = False
except yatiml.RecognitionError:
    aliased_fails = True
print('expanded loads:', ok_expanded, 'aliased fails:', aliased_fails)
sys.exit(0 if ok_expanded and aliased_fails else 1)
